"""C07 — a linear model's adjoint is the transpose of its forward map.

Representation typestate over cuqi/model/_model.py (raw operators are fun->fun; public maps are par->par):
 R1 adjoint applies the raw adjoint with (function-range = domain geometry, function-domain = range geometry); the matrix
    constructor wires forward = M @ x and adjoint = M.T @ y of the same stored matrix; gradient of a linear model = raw adjoint
 R2 a dual quantity (output of an adjoint/gradient operator) may be converted with fun2par only under the identity-geometry
    guard (or through geometry.gradient): Model.gradient carries the guard, LinearModel.adjoint must carry it too
 R3 a par->par public method may hand out the raw matrix only under the same guard (get_matrix fast path vs forward(e_i))
 R4 no par->par bound method is stored into a raw operator slot (LinearModel.T)
 R5 get_matrix assembles column i from forward(e_i) and materialises it before the reused unit-vector buffer is reset
"""
from __future__ import annotations
import ast
from typing import List

from ..index import Repo, AnchorError
from ..cfg import CFG, ReachingDefs, path_of
from ..astutil import unparse, call_name, func_params
from .common import site
from ..pattern import norm as pn

LM = "cuqi/model/_model.py:LinearModel"


def _norm(e) -> str:
    from .common import vstr
    return vstr(e)


def _has_identity_guard(fn) -> bool:
    """the function (or a checker it calls unconditionally first) refuses non-identity geometries"""
    for n in ast.walk(fn):
        if isinstance(n, ast.Call) and (call_name(n) or "").endswith("_get_identity_geometries"):
            return True
        if isinstance(n, ast.Call) and call_name(n) in ("self._check_gradient_can_be_computed", "self._check_adjoint_can_be_computed",
                                                        "self._check_identity_geometries"):
            return True
    return False


def run(chk, repo: Repo):
    chk.rule("C07-R1", "adjoint = _apply_func(raw adjoint, domain geometry, range geometry, ...); matrix wiring M@x / M.T@y; linear gradient = raw adjoint; "
                       "the operator handles (_forward_func / _adjoint_func) are written by the constructors only, the raw matrix of a matrix-backed model by nobody else", floor=3)
    chk.rule("C07-R2", "dual quantities are converted to parameters with fun2par only under the identity-geometry guard", floor=2)
    chk.rule("C07-R3", "the raw matrix is handed out as the par->par matrix only under the identity-geometry guard; a cached attribute of the model layer is reset "
                       "by every writer of what it was computed from", floor=1)
    chk.rule("C07-R4", "par->par bound methods are not stored into raw (fun->fun) operator slots", floor=1)
    chk.rule("C07-R5", "get_matrix: column i is forward(e_i), materialised in the same iteration before the buffer is reset; assembled from the forward map only "
                       "(never from adjoint(e_i): the adjoint is what the matrix is compared with); what is stored is the column itself, not a thresholded / rounded function of it", floor=1)
    chk.rule("C07-R6", "shipped 2-D convolution pair: the adjoint-by-flipped-kernel shortcut is used only where padding commutes with transposition "
                       "(zero and periodic extension) and mirrors the even-size crop", floor=3)
    _r6(chk, repo)
    chk.rule("C07-R8", "forward and adjoint are functions of their argument: no computation path of the model layer is selected by a tolerance comparator "
                       "(a `nearly equal to the previous input` shortcut maps nearby inputs to one output: the operator is no longer linear)", floor=2)
    from ..tolerant import tolerant_shortcut_rule
    tolerant_shortcut_rule(chk, repo, "C07-R8", ("cuqi/model/", "cuqi/operator/"))
    chk.rule("C07-R7", "forward/adjoint closures of models and test problems do not capture an iteration variable late", floor=3)
    from ..latebind import latebind_rule
    latebind_rule(chk, repo, "C07-R7", ("cuqi/model/", "cuqi/testproblem/", "cuqi/operator/"))
    lm = repo.cls(LM)
    adj = repo.method(lm, "adjoint")[1]
    # R1
    from .common import canon_fn, views
    from ..pattern import norm as pn
    from .common import closed_is, KwCanon
    kc = KwCanon(repo, lm, ["_apply_func"])
    y_, ip_ = func_params(adj)[1:3]
    ok, outs = closed_is(repo, lm, adj, f"self._apply_func(self._adjoint_func,self.domain_geometry,self.range_geometry,{y_},{ip_})", kc=kc)
    chk.add("C07-R1", f"{lm.qual}.adjoint", ok, site(repo, adj), "_apply_func(self._adjoint_func, domain_geometry, range_geometry, y, is_par)",
            f"adjoint does not apply the raw adjoint with swapped geometries: {outs}", adj)
    init = repo.method(lm, "__init__")[1]
    # matrix-backed construction, followed path by path with `callable(forward)` false: what is handed to Model.__init__ as the raw forward, what is
    # stored as the raw adjoint and as the matrix (closures are compared as `lambda _a0: body`)
    from ..pathtable import walk_paths, callable_text, _Sub
    from ..canon import clone as _clone
    iv = canon_fn(repo, lm, init, 1)
    fwd_p = func_params(init)[1]
    val = {pn(f"callable({fwd_p})"): False}
    problems = []

    def is_super(a_):
        return isinstance(a_, ast.Expr) and isinstance(a_.value, ast.Call) and pn(a_.value.func) == "super().__init__"
    sup = [r for k_, r in walk_paths(iv, val, pn, stop_pred=is_super) if k_ == "stop"]
    if not sup:
        problems.append("Model.__init__ is not reached for a matrix")
    for env, a_ in sup:
        f0 = a_.value.args[0] if a_.value.args else None
        f0 = env.get(f0.id, f0) if isinstance(f0, ast.Name) else f0
        if f0 is None or callable_text(f0, pn) != "lambda _a0:self._matrix@_a0":
            problems.append(f"raw forward of a matrix-backed model is `{callable_text(f0, pn) if f0 is not None else '?'}`, not x -> self._matrix @ x")
    ends = walk_paths(iv, val, pn)
    falls = [r for k_, r in ends if k_ == "fall"]
    if not falls or any(k_ in ("unknown", "loop") for k_, r in ends):
        problems.append(f"construction paths not decidable: {[ (k_, r) for k_, r in ends if k_ in ('unknown', 'loop')][:1]}")
    for env in falls:
        a0 = env.get("self._adjoint_func")
        if a0 is None or callable_text(a0, pn) != "lambda _a0:self._matrix.T@_a0":
            problems.append(f"raw adjoint of a matrix-backed model is `{callable_text(a0, pn) if a0 is not None else '?'}`, not y -> self._matrix.T @ y")
        m0 = env.get("self._matrix")
        if m0 is None or pn(m0) != fwd_p:
            problems.append(f"the stored matrix is `{pn(m0) if m0 is not None else '?'}`, not the given one")
    ok = not problems
    chk.add("C07-R1", f"{lm.qual}.__init__/matrix-wiring", ok, site(repo, init), "forward = M @ x, adjoint = M.T @ y of the same stored matrix",
            "matrix-backed model does not wire forward = M@x and adjoint = M.T@y of the same stored matrix: " + "; ".join(sorted(set(problems))), init)
    # function-backed construction (`callable(forward)` true): the raw operators ARE the user's callables and no matrix is stored.  (The slot `_matrix` is
    # also where get_matrix() later caches the parameter-to-parameter matrix, which already contains the geometries' maps: a raw operator that switches
    # to `self._matrix` once it exists applies those maps twice.)
    adj_p = func_params(init)[2]
    valf = {pn(f"callable({fwd_p})"): True, pn(f"callable({adj_p})"): True, pn(f"callable({adj_p}) is not True"): False, pn(f"callable({adj_p}) is True"): True}
    problems = []
    supf = [r for k_, r in walk_paths(iv, valf, pn, stop_pred=is_super) if k_ == "stop"]
    if not supf:
        problems.append("Model.__init__ is not reached for a pair of callables")
    for env, a_ in supf:
        f0 = a_.value.args[0] if a_.value.args else None
        f0 = env.get(f0.id, f0) if isinstance(f0, ast.Name) else f0
        t0 = pn(f0) if isinstance(f0, ast.Name) else (callable_text(f0, pn) if f0 is not None else "?")
        if t0 not in (fwd_p, f"lambda _a0:{fwd_p}(_a0)"):
            problems.append(f"raw forward of a function-backed model is `{t0}`, not the given callable `{fwd_p}`")
    endsf = walk_paths(iv, valf, pn)
    for env in [r for k_, r in endsf if k_ == "fall"]:
        a0 = env.get("self._adjoint_func")
        t0 = pn(a0) if isinstance(a0, ast.Name) else (callable_text(a0, pn) if a0 is not None else "?")
        if t0 not in (adj_p, f"lambda _a0:{adj_p}(_a0)"):
            problems.append(f"raw adjoint of a function-backed model is `{t0}`, not the given callable `{adj_p}`")
        m0 = env.get("self._matrix")
        if m0 is None or pn(m0) != "None":
            problems.append(f"a function-backed model starts with the stored matrix `{pn(m0) if m0 is not None else '?'}`, not None")
    chk.add("C07-R1", f"{lm.qual}.__init__/function-wiring", not problems, site(repo, init), "raw forward / adjoint are the given callables, no stored matrix",
            "function-backed model does not use the given callables as its raw operators: " + "; ".join(sorted(set(problems))), init)
    # who may write the raw operator slots: the constructors only (get_matrix caches a matrix, it does not re-wire the model)
    writers = []
    for c_ in [repo.cls("cuqi/model/_model.py:Model")] + repo.subclasses(repo.cls("cuqi/model/_model.py:Model")):
        for k_, nm, f_ in c_.all_functions():
            if nm == "__init__":
                continue
            for n_ in ast.walk(f_):
                if isinstance(n_, (ast.Assign, ast.AugAssign)):
                    for t_ in (n_.targets if isinstance(n_, ast.Assign) else [n_.target]):
                        for e_ in (t_.elts if isinstance(t_, (ast.Tuple, ast.List)) else [t_]):
                            if path_of(e_) in ("self._forward_func", "self._adjoint_func", "self._gradient_func"):
                                writers.append((c_, nm, n_))
    chk.add("C07-R1", f"{lm.qual}/raw-operator-writers", not writers, site(repo, writers[0][2]) if writers else site(repo, init), "raw operator slots are written by constructors only",
            f"{writers[0][0].name + '.' + writers[0][1] if writers else ''} re-binds a raw operator slot (`{unparse(writers[0][2])[:70] if writers else ''}`) after construction: forward / adjoint "
            f"of the SAME model object change their meaning with its history (e.g. after get_matrix(), whose matrix already contains the geometry maps)", writers[0][2] if writers else init)
    # on every construction path (matrix or callables) the gradient slot is (direction, wrt) -> raw adjoint(direction)
    allends = walk_paths(iv, {}, pn)
    gfalls = [r for k_, r in allends if k_ == "fall"]
    ok = bool(gfalls) and not any(k_ in ("unknown", "loop") for k_, r in allends) and \
        all(e_.get("self._gradient_func") is not None and callable_text(e_["self._gradient_func"], pn) == "lambda _a0,_a1:self._adjoint_func(_a0)" for e_ in gfalls)
    chk.add("C07-R1", f"{lm.qual}.__init__/gradient", ok, site(repo, init), "gradient(direction, wrt) = raw adjoint(direction)",
            "the linear model's gradient is not its raw adjoint applied to the direction", init)
    g = CFG(init)
    infer = [n for n in g.nodes if n.ast is not None and _norm(n.ast) in ("range_geometry=_DefaultGeometry1D(grid=matrix.shape[0])", "domain_geometry=_DefaultGeometry1D(grid=matrix.shape[1])")]
    chk.add("C07-R1", f"{lm.qual}.__init__/shape-inference", len(infer) == 2, site(repo, init), "range <- rows, domain <- columns",
            "default geometries are not inferred as range = matrix rows, domain = matrix columns", init)
    # R2
    model = repo.cls("cuqi/model/_model.py:Model")
    grad = repo.method(model, "gradient")[1]
    chk.add("C07-R2", f"{model.qual}.gradient", _has_identity_guard(grad), site(repo, grad), "guarded by _check_gradient_can_be_computed",
            "Model.gradient converts a dual quantity without the identity-geometry guard", grad)
    chk.add("C07-R2", f"{lm.qual}.adjoint", _has_identity_guard(adj), site(repo, adj), "identity-geometry guard present",
            "LinearModel.adjoint converts the raw adjoint's output (a dual quantity) with the domain geometry's fun2par — the inverse of par2fun, "
            "not its transpose — without the identity-geometry guard that Model.gradient carries: for expansion geometries "
            "(StepExpansion, KLExpansion, ...) <A x, y> != <x, A* y>", adj)
    # R3
    gm = repo.method(lm, "get_matrix")[1]
    gg = CFG(gm)
    fast = [n for n in gg.returns() if _norm(n.ast.value) == "self._matrix" and any(_norm(t.ast) == "self._matrixisnotNone" and lab == "T" for t, lab in gg.guards_of(n))]
    guarded = _has_identity_guard(gm)
    chk.add("C07-R3", f"{lm.qual}.get_matrix/fast-path", (not fast) or guarded, site(repo, fast[0].ast if fast else gm),
            "raw matrix returned only for identity geometries",
            "get_matrix returns the stored raw matrix (function values -> function values) as the matrix of the parameter-to-parameter map "
            "without an identity-geometry guard, while the slow path assembles forward(e_i): the two denote different maps for non-identity geometries", gm)
    # lazily cached results of the model layer are coherent with the (re-assignable) geometries they were computed through
    from ..cachecoh import cache_coherence
    cache_coherence(chk, repo, "C07-R3", ("cuqi/model/",))
    # R4
    T = lm.lookup_prop("T")
    if T is None or T.getter is None:
        raise AnchorError("LinearModel.T not found")
    ctors = [c for c in ast.walk(T.getter) if isinstance(c, ast.Call) and call_name(c) == "LinearModel"]
    if not ctors:
        raise AnchorError("LinearModel.T: constructor call not found")
    # positional and keyword arguments are bound to LinearModel.__init__'s parameter list
    iparams = func_params(init)[1:]
    cache_writer = any(isinstance(s_, ast.Assign) and path_of(s_.targets[0]) == "self._matrix" for s_ in ast.walk(repo.method(lm, "get_matrix")[1]))
    for k_, ctor in enumerate(ctors):
        tag = "" if len(ctors) == 1 else f"#{k_ + 1}"
        bound_args = {p_: _norm(a) for p_, a in zip(iparams, ctor.args)}
        bound_args.update({k.arg: _norm(k.value) for k in ctor.keywords if k.arg})
        args = [bound_args.get(p_, "?") for p_ in iparams[:4]]
        wrapped = [a for a in args[:2] if a in ("self.adjoint", "self.forward")]
        chk.add("C07-R4", f"{lm.qual}.@T{tag}", not wrapped or _has_identity_guard(T.getter), site(repo, T.getter), "raw operators passed to the transposed model",
                f"the transposed model stores the geometry-wrapped methods {wrapped} in its raw operator slots, so both geometries are applied twice "
                f"(and the matrix shortcut is the transposed raw matrix): wrong or failing for non-identity geometries", T.getter)
        if "self._matrix" in args[0] and cache_writer:
            chk.add("C07-R4", f"{lm.qual}.@T{tag}/stored-matrix-as-raw-operator", _has_identity_guard(T.getter), site(repo, ctor),
                    "stored matrix used as raw operator only for identity geometries",
                    f"the transposed model is built on `{args[0]}` as its raw operator, but `self._matrix` is also the slot in which get_matrix() caches the "
                    f"parameter-to-parameter matrix of a function-backed model: after get_matrix() such a model's transpose acts on the wrong space "
                    f"(shape errors / geometry applied twice for reshaping geometries)", ctor)
        tname = [path_of(s_.targets[0]) for s_ in ast.walk(T.getter) if isinstance(s_, ast.Assign) and s_.value is ctor]
        from .common import assigned_values
        transposed = (bool(tname) and "self._matrix.T" in assigned_values(repo, lm, T.getter, f"{tname[0]}._matrix")) or args[0] == "self._matrix.T"     # aliases of self._matrix expanded
        ok = len(args) == 4 and iparams[2:4] == ["range_geometry", "domain_geometry"] and args[2:] == ["self.domain_geometry", "self.range_geometry"] and transposed
        chk.add("C07-R1", f"{lm.qual}.@T{tag}/swap", ok, site(repo, T.getter), "geometries swapped, stored matrix transposed",
                "transposed model does not swap the geometries / transpose the stored matrix consistently", T.getter)
    # R5 (on the structural normal form with temporaries such as `n = self.domain_dim` substituted; the buffer and index names are read off)
    gm4 = canon_fn(repo, lm, gm, 4)
    loops = [n for n in ast.walk(gm4) if isinstance(n, ast.For)]
    if not loops:
        gm4 = canon_fn(repo, lm, gm, 3)             # the assembly loop lives in a private helper: inlined (and substituted) view
        loops = [n for n in ast.walk(gm4) if isinstance(n, ast.For)]
    problems = []
    adj_calls = [c for c in ast.walk(gm) if isinstance(c, ast.Call) and call_name(c) in ("self.adjoint", "self._adjoint_func")]
    if adj_calls:
        # the matrix of the forward map is assembled from the forward map: rows taken from adjoint(e_i) are the transpose of ANOTHER matrix whenever the exposed
        # adjoint is not the exact transpose of forward (non-orthogonal expansions in the range geometry: fun2par is a projection, not par2fun transposed)
        chk.fail("C07-R5", f"{lm.qual}.get_matrix/from-forward", site(repo, adj_calls[0]),
                 f"`{unparse(adj_calls[0])[:60]}`: get_matrix assembles (part of) the matrix from the adjoint; get_matrix() @ x then differs from forward(x) for every "
                 f"geometry whose fun2par is not the transpose of its par2fun", adj_calls[0])
        return
    if len(loops) != 1:
        raise AnchorError("get_matrix: column loop not found")
    lp = loops[0]
    i = lp.target.id
    if _norm(lp.iter) != "range(self.domain_dim)":
        problems.append(f"columns are enumerated over {unparse(lp.iter)}, not range(self.domain_dim)")
    body = [_norm(s) for s in lp.body]
    sets = [s_ for s_ in lp.body if isinstance(s_, ast.Assign) and isinstance(s_.targets[0], ast.Subscript) and _norm(s_.targets[0].slice) == i
            and isinstance(s_.value, ast.Constant) and s_.value.value == 1]
    if len(sets) != 1:
        raise AnchorError("get_matrix: unit-vector set/reset idiom not found")
    e = path_of(sets[0].targets[0].value)
    try:
        i_set = body.index(f"{e}[{i}]=1")
        i_reset = body.index(f"{e}[{i}]=0")
    except ValueError:
        raise AnchorError("get_matrix: unit-vector set/reset idiom not found")
    between = lp.body[i_set + 1:i_reset]
    fcalls = [c for st in lp.body for c in ast.walk(st) if isinstance(c, ast.Call) and _norm(c) == f"self.forward({e})"]
    if len(fcalls) != 1 or not any(fcalls[0] in list(ast.walk(st)) for st in between):
        problems.append("forward(e) is not evaluated exactly once between setting and resetting component i")
    else:
        fc = fcalls[0]
        par = getattr(fc, "_parent", None)
        # how is the column consumed?  accepted (copying) forms vs. aliasing forms
        COPYING = ("hstack", "np.hstack", "np.column_stack", "np.array", "np.copy", "copy", "csc_matrix", "csr_matrix")
        consumed = None
        col = None
        if isinstance(par, ast.Assign) and isinstance(par.targets[0], ast.Name):
            col = par.targets[0].id
            uses = [st for st in between if st is not par and col in {x.id for x in ast.walk(st) if isinstance(x, ast.Name)}]
            # the stored column IS forward(e_i): the local holding it is not re-bound or written before it is stored (a thresholding / rounding step
            # `col = np.where(abs(col) > 1e-12, col, 0)` makes the matrix differ from the map for legitimately small entries)
            rebinds = [st for st in lp.body for t_ in ast.walk(st) if st is not par and isinstance(t_, ast.Name) and t_.id == col and isinstance(t_.ctx, ast.Store)] + \
                      [st for st in lp.body if isinstance(st, (ast.Assign, ast.AugAssign)) and any(
                          isinstance(t_, ast.Subscript) and path_of(t_.value) == col for t_ in (st.targets if isinstance(st, ast.Assign) else [st.target]))]
            if rebinds:
                problems.append(f"the column `{col}` = forward(e) is changed before it is stored (`{unparse(rebinds[0])[:70]}`): the assembled matrix is no longer "
                                f"the matrix of the forward map")
            for st in uses:
                if isinstance(st, ast.Assign) and isinstance(st.value, ast.Call) and call_name(st.value) in COPYING:
                    consumed = "copy"
                    # what is appended is the column itself (as a column): col[:, None] / col.reshape(-1, 1) / col - not a function of it
                    a0 = st.value.args[0] if st.value.args else None
                    parts = list(a0.elts) if isinstance(a0, (ast.Tuple, ast.List)) else []
                    new_cols = [x for x in parts if _norm(x) != path_of(st.targets[0])]
                    okf = {f"{col}[:,None]", f"{col}", f"{col}.reshape(-1,1)", f"{col}.reshape((-1,1))", f"{col}[:,np.newaxis]"}
                    if parts and any(_norm(x) not in okf for x in new_cols):
                        problems.append(f"the column appended is `{unparse(new_cols[0])[:70]}`, a function of forward(e) (thresholded / rounded / scaled), not forward(e) "
                                        f"itself: the assembled matrix is no longer the matrix of the forward map (legitimately small entries vanish)")
                    if not ((f"{col}[:,None]" in _norm(st.value) or f"{col}" in _norm(st.value)) and _norm(st.value).split("((")[-1].split(",")[0] == path_of(st.targets[0])):
                        problems.append("new column is not appended on the right of the accumulated matrix (column order)")
                elif isinstance(st, ast.Assign) and isinstance(st.targets[0], ast.Subscript) and _norm(st.targets[0].slice) in (f"(slice(None,None,None),{i})", f":,{i}", f"(:,{i})"):
                    consumed = "copy"
                elif isinstance(st, ast.Expr) and isinstance(st.value, ast.Call) and isinstance(st.value.func, ast.Attribute) and st.value.func.attr in ("append", "extend", "insert"):
                    consumed = "alias" if ".copy()" not in _norm(st.value) and "np.array(" not in _norm(st.value) else "copy"
        elif isinstance(par, ast.Assign) and isinstance(par.targets[0], ast.Subscript):
            consumed = "copy"       # M[:, i] = forward(e) copies the values
        elif isinstance(par, ast.Call) and isinstance(par.func, ast.Attribute) and par.func.attr in ("append", "extend", "insert"):
            consumed = "alias"
        elif isinstance(par, ast.Attribute) and par.attr == "copy":
            consumed = "copy"
        if consumed is None:
            # the call is nested in the consuming expression (its temporary was substituted): walk up to the statement
            n_ = fc
            while n_ is not None and not isinstance(n_, ast.stmt):
                n_ = getattr(n_, "_parent", None)
                if isinstance(n_, ast.Call) and call_name(n_) in COPYING:
                    consumed = "copy"
                    st = n_
                    while st is not None and not isinstance(st, ast.stmt):
                        st = getattr(st, "_parent", None)
                    if isinstance(st, ast.Assign) and _norm(n_).split("((")[-1].split(",")[0] != path_of(st.targets[0]) and call_name(n_) in ("hstack", "np.hstack"):
                        problems.append("new column is not appended on the right of the accumulated matrix (column order)")
                    break
                if isinstance(n_, ast.Call) and isinstance(n_.func, ast.Attribute) and n_.func.attr in ("append", "extend", "insert"):
                    consumed = "alias"
                    break
            if consumed is None and isinstance(n_, ast.Assign) and isinstance(n_.targets[0], ast.Subscript):
                consumed = "copy"
        if consumed is None:
            raise AnchorError("get_matrix: unknown idiom for storing column i (neither a copying store nor a container append)")
        if consumed == "alias":
            problems.append("the result of forward(e) is kept by reference (appended to a container) while the unit-vector buffer e is "
                            "reused and reset: a forward operator returning (a view of) its input leaves every stored column aliased to e")
    chk.add("C07-R5", f"{lm.qual}.get_matrix/columns", not problems, site(repo, lp), "M[:, i] = forward(e_i), copied before e is reset", "; ".join(problems), lp)


def _r6(chk, repo):
    """Deconvolution2D: forward = pad(mode) + 'valid' convolution (+ crop of the first row/column for even PSF sizes);
    backward = the same routine with the flipped PSF. That is the transpose only if (i) the extension is zero or periodic
    (the adjoint of a symmetric/edge/reflect extension folds the border back, it does not pad) and (ii) the even-size crop
    is mirrored (last instead of first row/column)."""
    TP = "cuqi/testproblem/_testproblem.py"
    from .common import canon_fn
    from ..flow import Expander
    fwd_src = repo.func(f"{TP}:_proj_forward_2D")
    bwd_src = repo.func(f"{TP}:_proj_backward_2D")
    fwd = canon_fn(repo, None, fwd_src, 4, rel=TP)
    bwd = canon_fn(repo, None, bwd_src, 4, rel=TP)
    Bp, P, BCp = func_params(bwd_src)[:3]
    # ---- backward: every return is forward(B, flip(P), BC)
    exb = Expander(bwd)
    FLIPS = (f"np.flipud(np.fliplr({P}))", f"np.fliplr(np.flipud({P}))", f"{P}[::-1,::-1]", f"np.flip({P})", f"np.flip({P},(0,1))", f"np.flip({P},axis=(0,1))")
    rets = exb.cfg.returns()
    delegating = [r for r in rets if isinstance(r.ast.value, ast.Call) and call_name(r.ast.value) == "_proj_forward_2D" and len(r.ast.value.args) == 3]
    own_algorithm = [r for r in rets if r not in delegating]
    tb = _norm(bwd)
    if own_algorithm and not ("np.pad(" in tb or "fftconvolve(" in tb):
        raise AnchorError("2-D convolution pair: structure (pad + valid convolution, backward delegating to forward) not recognised")
    if delegating:
        flipped = all(_norm(exb.expand(r.ast.value.args[1], r, stop=frozenset())) in FLIPS or _norm(_flip_arg(exb, r)) in FLIPS for r in delegating)
        same = all(_norm(r.ast.value.args[0]) == Bp and _norm(r.ast.value.args[2]) == BCp for r in delegating)
        chk.add("C07-R6", f"{TP}:_proj_backward_2D/flip", flipped and same, site(repo, bwd_src), "adjoint convolves with the PSF flipped in both axes",
                "the backward map does not use the PSF flipped in both axes (on the same image and boundary mode)", bwd_src)
    else:
        flipped = any(f in tb for f in FLIPS)
        chk.add("C07-R6", f"{TP}:_proj_backward_2D/flip", flipped, site(repo, bwd_src), "adjoint convolves with the PSF flipped in both axes",
                "the backward map does not use the PSF flipped in both axes", bwd_src)
    # ---- forward: ONE algorithm for every boundary mode: each return yields the padded 'valid' convolution, cropped only for even sizes
    exf = Expander(fwd)
    gf = exf.cfg
    Xp, Pf, BCf = func_params(fwd_src)[:3]
    crop_nodes = []
    for r in gf.returns():
        vals = []
        nm = path_of(r.ast.value)
        if nm:
            for dn, rhs in exf.defs(r, nm):
                vals.append((dn, rhs))
        else:
            vals.append((r, r.ast.value))
        for dn, rhs in vals:
            if rhs is None:
                raise AnchorError("_proj_forward_2D: returned value has no visible definition")
            e = exf.expand(rhs, dn)
            cropped = False
            if isinstance(e, ast.Subscript) and _norm(e.slice) in ("(slice(1,None,None),slice(1,None,None))", "1:,1:", "(1:,1:)"):
                cropped = True
                e = e.value
                if isinstance(e, ast.Name):
                    inner = [x for d2, x in exf.defs(dn, e.id) if x is not None and not isinstance(x, ast.Subscript)]
                    e = exf.expand(inner[0], dn) if len(inner) == 1 else e
            t = _norm(e)
            want = f"fftconvolve(np.pad({Xp},max({Pf}.shape)//2,mode={BCf}),{Pf},mode='valid')"
            if t != want:
                raise AnchorError(f"_proj_forward_2D: `{unparse(rhs)[:60]}` is not the padded 'valid' convolution on every path (a boundary-mode specific "
                                  f"algorithm cannot be compared with the flipped-kernel adjoint by this rule)")
            if cropped:
                crop_nodes.append(dn)
    # the crop is taken exactly for even PSF sizes (parity of max(P.shape), decided by evaluating the guard for both parities)
    for cn in crop_nodes:
        okp = False
        for t, lab in gf.guards_of(cn):
            tv = [_parity_truth(exf.expand(t.ast, t), f"max({Pf}.shape)", p_) for p_ in (0, 1)]
            if None not in tv and (tv[0] == (lab == "T")) and (tv[1] != (lab == "T")):
                okp = True
        if not okp:
            raise AnchorError("_proj_forward_2D: the guard of the first-row/column crop is not a parity test of the PSF size")
    tf = _norm(fwd)
    # boundary modes that can reach the pair
    ci = repo.cls(f"{TP}:Deconvolution2D")
    init = repo.method(ci, "__init__")[1]
    modes = set()
    # every padding mode the constructor can hand to the pair: literals assigned to BC, or the values of the literal table BC is looked up in
    # (a dict local to the constructor or at module level)
    tables = {}
    for scope in (init, repo.mod(TP).tree):
        for n in (ast.walk(scope) if scope is init else scope.body):
            if isinstance(n, ast.Assign) and len(n.targets) == 1 and isinstance(n.targets[0], ast.Name) and isinstance(n.value, ast.Dict) \
                    and n.value.values and all(isinstance(v_, ast.Constant) for v_ in n.value.values):
                tables[n.targets[0].id] = {v_.value for v_ in n.value.values}
    for n in ast.walk(init):
        if isinstance(n, ast.Assign) and path_of(n.targets[0]) == "BC":
            v = n.value
            if isinstance(v, ast.Constant):
                modes.add(v.value)
            elif isinstance(v, ast.Subscript) and isinstance(v.value, ast.Dict) and all(isinstance(x_, ast.Constant) for x_ in v.value.values):
                modes |= {x_.value for x_ in v.value.values}
            elif isinstance(v, ast.Subscript) and isinstance(v.value, ast.Name) and v.value.id in tables:
                modes |= tables[v.value.id]
            elif isinstance(v, ast.Call) and isinstance(v.func, ast.Attribute) and v.func.attr == "get" and isinstance(v.func.value, ast.Name) and v.func.value.id in tables:
                modes |= tables[v.func.value.id]
    if not modes:
        raise AnchorError("Deconvolution2D: boundary-condition translation table not found")
    bad = sorted(m for m in modes if m not in ("constant", "wrap"))
    chk.add("C07-R6", f"{TP}:Deconvolution2D/adjoint-padding", not bad, site(repo, bwd_src),
            "padding modes reaching the flipped-kernel adjoint are zero/periodic only",
            f"the adjoint re-pads its input with the forward's np.pad mode; for modes {bad} (symmetric/edge/reflect extension) the transpose of "
            f"'pad then convolve' folds the border back instead of padding, so adjoint != forward^T (exact only for {sorted(modes - set(bad))}, "
            f"and by symmetry for symmetric PSFs with the symmetric extension)", bwd_src)
    crop = bool(crop_nodes)
    mirrored = "[:-1,:-1]" in tb
    chk.add("C07-R6", f"{TP}:_proj_backward_2D/even-size-crop", (not crop) or mirrored, site(repo, fwd_src),
            "even PSF sizes: the adjoint crops the opposite border",
            "for even PSF sizes the forward drops the FIRST row/column of the 'valid' convolution; the backward map reuses exactly this crop with the "
            "flipped PSF, whereas the transpose requires dropping the LAST row/column: adjoint != forward^T for every even PSF size", fwd_src)
    model = [n for n in ast.walk(init) if isinstance(n, ast.Assign) and path_of(n.targets[0]) == "model"]
    # the two callables handed to LinearModel (lambdas or nested defs), compared by body: same PSF and padding mode on both sides
    from ..pathtable import callable_text as _ct2
    from .common import KwCanon as _KC2
    ok = False
    if len(model) == 1 and isinstance(model[0].value, ast.Call) and (call_name(model[0].value) or "").endswith("LinearModel"):
        k2 = _KC2().add(call_name(model[0].value), repo.method(repo.cls(LM), "__init__")[1])
        kw2 = {k_.arg: k_.value for k_ in k2.visit(__import__("copy").deepcopy(model[0].value)).keywords}
        ldefs = {d.name: d for d in ast.walk(init) if isinstance(d, ast.FunctionDef) and d is not init}

        def cb(e):
            if isinstance(e, ast.Name) and e.id in ldefs:
                e = ldefs[e.id]
            return _ct2(e, pn) if e is not None else None
        ok = cb(kw2.get("forward")) == "lambda _a0:_proj_forward_2D(_a0,P,BC)" and cb(kw2.get("adjoint")) == "lambda _a0:_proj_backward_2D(_a0,P,BC)" \
            and pn(kw2.get("range_geometry", ast.Constant(value=None))) == "range_geometry" and pn(kw2.get("domain_geometry", ast.Constant(value=None))) == "domain_geometry"
    chk.add("C07-R6", f"{TP}:Deconvolution2D/model", ok, site(repo, init), "forward and adjoint share the same PSF and boundary mode",
            "forward and adjoint of the 2-D deconvolution model are not built on the same (PSF, boundary mode)", init)


def _flip_arg(ex, r):
    """second argument of the delegating call with every reaching definition of a re-bound parameter followed one step"""
    a = r.ast.value.args[1]
    nm = path_of(a)
    if nm:
        ds = [x for d, x in ex.defs(r, nm) if x is not None]
        if len(ds) == 1:
            return ds[0]
    return a


def _parity_truth(e, size_txt: str, p: int):
    """truth value of a test on the parity of `size` (N & 1, N % 2, compared with 0/1, negated), for parity p; None if it is something else"""
    def val(x):
        if isinstance(x, ast.Constant) and isinstance(x.value, (int, bool)):
            return int(x.value)
        if isinstance(x, ast.BinOp) and isinstance(x.op, (ast.BitAnd, ast.Mod)) and _norm(x.left) == size_txt and isinstance(x.right, ast.Constant):
            if isinstance(x.op, ast.BitAnd) and x.right.value == 1:
                return p
            if isinstance(x.op, ast.Mod) and x.right.value == 2:
                return p
        return None
    if isinstance(e, ast.UnaryOp) and isinstance(e.op, ast.Not):
        v = _parity_truth(e.operand, size_txt, p)
        return None if v is None else (not v)
    if isinstance(e, ast.Compare) and len(e.ops) == 1:
        a, b = val(e.left), val(e.comparators[0])
        if a is None or b is None:
            return None
        if isinstance(e.ops[0], ast.Eq):
            return a == b
        if isinstance(e.ops[0], ast.NotEq):
            return a != b
        return None
    v = val(e)
    return None if v is None else bool(v)
