"""C04 — log-densities are the documented normalised densities in every parameterisation (structural clauses).

 R1 property wiring: a `@p.setter` function is named p, and the field the getter returns is a field the setter assigns
 R2 CDF aggregation: product-form families aggregate per-component CDFs with a product; outside the support the CDF is 0
 R3 one canonical form for the Gaussian: the four setters use the same dense/sparse switch and store the canonical tuple returned
    by their helper; in every helper every returned name is definitely assigned on every path; where a helper returns prec it is
    sqrtprec.T @ sqrtprec (the convention of the density); an eigenvector square root may only be re-signed from the left;
    library code uses a Gaussian's precision in matrix arithmetic only through canonical fields
 R4 sign agreement: in each helper all branches give logdet the same polarity (+log for covariance-type, -log for precision-type
    inputs) and rank is dim or a rank computation
 R5 un-normalised = normalised - constant: the term added to the un-normalised Gaussian log-density does not depend on x
 R6 product-form log-densities aggregate one broadcast expression that contains x: no parameter-only term is summed over the
    parameter array's own length
"""
from __future__ import annotations
import ast
from typing import Dict, List, Optional, Set

from ..index import Repo, AnchorError
from ..cfg import CFG, ReachingDefs, path_of
from ..astutil import unparse, call_name, func_params, strip_docstring, walk_no_nested
from .common import site

GA = "cuqi/distribution/_gaussian.py"
HELPERS = {"get_sqrtprec_from_cov": +1, "get_sqrtprec_from_sqrtcov": +1, "get_sqrtprec_from_prec": -1, "get_sqrtprec_from_sqrtprec": -1}
HELPER_DIAG_BRANCHES = {h: 1 for h in HELPERS}       # log-determinants read off a matrix diagonal per helper, confirmed by hand


def _norm(e) -> str:
    from .common import vstr
    return vstr(e)


def run(chk, repo: Repo):
    chk.rule("C04-R1", "setter function named like its property; getter returns a field the setter assigns", floor=40)
    chk.rule("C04-R2", "cdf of product-form families: product of component CDFs; 0 outside the support; Gaussian tail functions take the deviation in their own units (erf: sqrt(2) sigma, ndtr: sigma)", floor=5)
    chk.rule("C04-R3", "Gaussian canonical form: setters, helpers' definite assignment, prec = sqrtprec.T @ sqrtprec, left re-signing only, canonical use of the precision; "
                       "every conversion helper returns the power of the covariance scale its name promises (sqrtprec: -1/2, sqrtcov: 1/2, prec: -1, cov: 1) on every path", floor=14)
    chk.rule("C04-R4", "logdet polarity and rank source agree across all branches of each helper", floor=40)
    chk.rule("C04-R5", "Gaussian.logpdf = constant (independent of x) + un-normalised log-density of x - mean through sqrtprec, on every path", floor=2)
    chk.rule("C04-R6", "product-form log-densities: no parameter-only term summed separately from the broadcast expression", floor=6)
    _r1(chk, repo)
    _r2(chk, repo)
    _r2_special_functions(chk, repo)
    _r3(chk, repo)
    _r4(chk, repo)
    _r5(chk, repo)
    _r6(chk, repo)
    chk.rule("C04-R7", "Gram orientation: every product of a Gaussian square root with its own transpose follows precision = sqrtprec.T @ sqrtprec, "
                       "covariance = sqrtcov @ sqrtcov.T (other orientation only into determinant / rank / eigenvalue sinks)", floor=10)
    chk.rule("C04-R8", "diagonal fast paths of the Gaussian helpers are selected by exact structural tests, never by a tolerance comparator", floor=4)
    from ..gram import gram_orientation, exact_shortcuts
    gram_orientation(chk, repo, "C04-R7")
    exact_shortcuts(chk, repo, "C04-R8", only_methods=False)
    chk.rule("C04-R9", "Lognormal evaluates through an inner Gaussian mirror: each mirrored parameter is refreshed whenever SOME entry differs "
                       "(refresh-if must be equivalent to `exists i: mirror[i] != parameter[i]`)", floor=2)
    _r9(chk, repo)
    chk.rule("C04-R10", "a log-determinant read off a matrix diagonal (sum of logs of diag(M)) is used only where M is diagonal by the branch's own structural "
                        "test or is a Cholesky factor; for a general square root R (any R with R.T R = prec is documented as valid) it is not log det", floor=4)
    _r10(chk, repo)
    _r3_scale_degree(chk, repo)
    chk.rule("C04-R11", "densities do not depend on the integer/float dtype of their parameters: no dtype-preserving constructor with a NaN/inf/fractional fill "
                        "and no np.reciprocal on unconverted parameters in the distribution modules", floor=15)
    from ..dtypelint import dtype_rule
    dtype_rule(chk, repo, "C04-R11", ("cuqi/distribution/",))


INPUT_DEGREE = {"get_sqrtprec_from_cov": 2, "get_sqrtprec_from_sqrtcov": 1, "get_sqrtprec_from_prec": -2, "get_sqrtprec_from_sqrtprec": -1}


def _r3_scale_degree(chk, repo):
    """units: on every path of the four helpers the returned sqrtprec scales like 1/sigma and the returned prec like 1/sigma**2 (sa/scaledeg.py)"""
    from fractions import Fraction
    from .common import canon_fn
    from ..pathtable import walk_paths
    from ..pattern import norm as pn
    from ..scaledeg import degree, MIXED
    total = 0
    for helper, d0 in INPUT_DEGREE.items():
        hf = repo.func(f"{GA}:{helper}")
        mat = func_params(hf)[1]
        v = canon_fn(repo, None, hf, 2, rel=GA)
        seen = {}
        for kind, res in walk_paths(v, {}, pn, limit=512):
            if kind != "return":
                continue
            env = getattr(res, "_env", {})
            for name, want in (("sqrtprec", Fraction(-1)), ("prec", Fraction(-2))):
                if name == mat:
                    continue
                e = env.get(name)
                if not isinstance(e, ast.AST):
                    continue
                key = (name, pn(e))
                if key in seen:
                    continue
                d = degree(e, {mat: Fraction(d0)})
                seen[key] = d
                if d is None:
                    continue
                total += 1
                chk.add("C04-R3", f"{GA}:{helper}/units@{name}={pn(e)[:50]}", d == want, site(repo, hf), f"{name} scales like sigma**{want}",
                        f"`{name} = {pn(e)[:110]}` scales like sigma**{d} when the input ({mat}) is rescaled, not like sigma**{want}: a square root / reciprocal too many or "
                        f"too few in this branch (the same law given in the other input forms is evaluated with the right units)", hf)
    if total < 20:
        raise AnchorError(f"scale-degree rule decided only {total} results of the Gaussian helpers, at least 20 expected")


def _r10(chk, repo):
    from ..flow import Expander
    from .common import canon_fn
    from ..pattern import norm as pn
    from .common import best_of
    tot = [0]
    for helper in HELPERS:
        hf = repo.func(f"{GA}:{helper}")
        want = HELPER_DIAG_BRANCHES[helper]

        def on_level(t, level, _hf=hf, _helper=helper, _want=want):
            k = _r10_on(t, repo, _helper, _hf, Expander(canon_fn(repo, None, _hf, level, rel=GA)))
            if k < _want:
                raise AnchorError(f"{_helper}: {k} log-determinants read from a matrix diagonal found, {_want} confirmed by hand")
            tot[0] += k
        best_of(chk, (1, 2), on_level)         # as written; with module-level private helpers inlined
    if tot[0] < 4:
        raise AnchorError(f"{tot[0]} log-determinants read from a matrix diagonal found in the Gaussian helpers, 4 confirmed by hand (one diagonal branch each)")


def _r10_on(chk, repo, helper, hf, ex):
    from ..pattern import norm as pn
    n = 0
    if True:
        g = ex.cfg
        mat = func_params(hf)[1]
        for nd in g.nodes:
            a = nd.ast
            if nd.kind != "stmt" or not isinstance(a, ast.Assign) or path_of(a.targets[0]) != "logdet":
                continue
            v = ex.expand(a.value, nd, stop=frozenset({mat}))
            diag_of = []
            for c in ast.walk(v):
                if isinstance(c, ast.Call) and (call_name(c) or "") in ("np.diag", "np.diagonal") and c.args and path_of(c.args[0]) == mat:
                    diag_of.append(c)
                elif isinstance(c, ast.Call) and isinstance(c.func, ast.Attribute) and c.func.attr == "diagonal" and path_of(c.func.value) == mat:
                    diag_of.append(c)
            if not diag_of:
                continue
            n += 1
            guards = [(pn(ex.expand(t.ast, t, stop=frozenset({mat}))), lab) for t, lab in g.guards_of(nd)]
            DIAG = {pn(f"np.count_nonzero({mat}-np.diag({mat}.diagonal()))==0"), pn(f"np.count_nonzero({mat}-np.diag(np.diag({mat})))==0"),
                    pn(f"0==np.count_nonzero({mat}-np.diag({mat}.diagonal()))")}
            by_test = any(lab == "T" and any(d in tx for d in DIAG) for tx, lab in guards)
            vector = any(lab == "T" and (f"{mat}.ndim==1" in tx or f"len({mat}.shape)==1" in tx) for tx, lab in guards)
            chk.add("C04-R10", f"{GA}:{helper}/logdet-from-diagonal@{pn(a.value)[:40]}", by_test or vector, site(repo, a),
                    "diagonal read under the branch's exact diagonal-structure test",
                    f"`{unparse(a)[:90]}` takes the log-determinant from the diagonal of `{mat}` in a branch that does not establish that `{mat}` is diagonal "
                    f"(or triangular): for a full square root such as sqrtm(prec) or Q @ chol(prec) the normalising constant is wrong while the same "
                    f"law given as cov / prec is normalised correctly", a)
    return n


def _r1(chk, repo):
    n = 0
    for ci in repo.classes:
        for name, p in ci.props.items():
            if p.setter is None:
                continue
            n += 1
            inst = f"{ci.qual}.@{name}"
            problems = []
            if p.setter_funcname != name:
                problems.append(f"the setter of `{name}` is bound to the name `{p.setter_funcname}`: assigning to `{name}` does not call it "
                                f"(and `{p.setter_funcname}` becomes an unrelated property)")
            getter = p.getter
            if getter is None:
                for b in ci.mro()[1:]:
                    if name in b.props and b.props[name].getter is not None:
                        getter = b.props[name].getter
                        break
            if getter is not None:
                rets = [r.value for r in ast.walk(getter) if isinstance(r, ast.Return) and r.value is not None]
                simple = [path_of(v)[5:] for v in rets if path_of(v) and path_of(v).startswith("self._") and path_of(v).count(".") == 1]
                assigned = set()
                for s in walk_no_nested(p.setter):
                    if isinstance(s, ast.Assign):
                        for t in s.targets:
                            pt = path_of(t)
                            if pt and pt.startswith("self.") and pt.count(".") == 1:
                                assigned.add(pt[5:])
                if simple and len(simple) == len(rets) and assigned and any(a.startswith("_") for a in assigned):
                    if not (set(simple) & assigned):
                        problems.append(f"the getter returns {sorted(set(simple))} but the setter assigns {sorted(assigned)}: reading `{name}` does not "
                                        f"give back what was set")
            chk.add("C04-R1", inst, not problems, site(repo, p.setter), "setter named like the property; getter and setter share the backing field", "; ".join(problems), p.setter)
    if n < 40:
        raise AnchorError(f"{n} properties with setters found, 40+ confirmed by hand")


def _r2(chk, repo):
    n = 0
    for ci in repo.classes:
        if not ci.module.rel.startswith("cuqi/distribution/") or "cdf" not in ci.methods:
            continue
        fn = ci.methods["cdf"]
        if ci.name == "Gaussian":
            chk.note("C04-R2 Gaussian.cdf delegates to scipy's multivariate normal CDF (not product form) — exempt")
            continue
        n += 1
        problems = []
        for r in [x for x in ast.walk(fn) if isinstance(x, ast.Return) and x.value is not None]:
            v = r.value
            if isinstance(v, ast.Call) and call_name(v) in ("np.prod", "np.product"):
                continue
            if isinstance(v, ast.Constant) and v.value == 0:
                continue
            if isinstance(v, ast.Call) and call_name(v) in ("np.sum", "sum"):
                problems.append(f"line {r.lineno}: component CDFs are aggregated with a SUM; the CDF of independent components is their product")
            elif "inf" in _norm(v).lower():
                # only a support test on the argument counts (an invalid-parameter test is not a support matter)
                from .c03 import _norm_pred
                par = getattr(r, "_parent", None)
                pred = _norm_pred(ci, par.test) if isinstance(par, ast.If) else ""
                arg = func_params(fn)[1]
                if arg in {m.id for m in ast.walk(ast.parse(pred, mode="eval")) if isinstance(m, ast.Name)} if pred else False:
                    problems.append(f"line {r.lineno}: returns {unparse(v)} outside the support; a CDF is 0 there")
            else:
                problems.append(f"line {r.lineno}: `{unparse(v)[:60]}` is not a product of component CDFs")
        for i, pr in enumerate(problems):
            pass
        if problems:
            for pr in problems:
                kind = "sum" if "SUM" in pr else ("inf" if "outside the support" in pr else "other")
                chk.fail("C04-R2", f"{ci.qual}.cdf/{kind}", site(repo, fn), pr, fn)
        else:
            chk.ok("C04-R2", f"{ci.qual}.cdf", site(repo, fn), "np.prod of component CDFs; 0 outside the support")
    if n < 5:
        raise AnchorError(f"{n} product-form cdf methods found, 5 confirmed by hand")


def _r3(chk, repo):
    ga = repo.cls(f"{GA}:Gaussian")
    from .common import canon_fn, views
    from ..pattern import norm as pn
    for name in ("cov", "prec", "sqrtcov", "sqrtprec"):
        p = ga.props.get(name)
        if p is None or p.setter is None:
            raise AnchorError(f"Gaussian.{name} setter not found")
        helper = f"get_sqrtprec_from_{name}"
        problems = []
        v3 = canon_fn(repo, ga, p.setter, 3)
        calls = [c for c in ast.walk(v3) if isinstance(c, ast.Call) and call_name(c) == helper]
        rec = len(calls) == 1
        if rec:
            args = [pn(a) for a in calls[0].args]
            SW = ("config.MIN_DIM_SPARSE<self.dim", "self.dim>config.MIN_DIM_SPARSE")
            if len(args) != 3 or args[0] != "self.dim" or args[1] != "value":
                problems.append(f"canonical form is not computed by {helper}(self.dim, value, sparse_flag)")
            elif args[2] not in SW:
                problems.append(f"dense/sparse switch is `{args[2]}`, not `self.dim > config.MIN_DIM_SPARSE`")
            par = getattr(calls[0], "_parent", None)
            stored = []
            if isinstance(par, ast.Assign) and isinstance(par.targets[0], ast.Tuple):
                V = views(repo, ga, p.setter)
                for e in par.targets[0].elts:
                    pe = path_of(e)
                    if pe and pe.startswith("self._"):
                        stored.append(pe[6:])
                    elif pe and any(f"self._{x}={pe}" in V for x in ("prec", "sqrtprec", "logdet", "rank", "cov", "sqrtcov") if f"self._{x}={pe}" in V):
                        stored.append([x for x in ("prec", "sqrtprec", "logdet", "rank", "cov", "sqrtcov") if f"self._{x}={pe}" in V][0])
                    else:
                        stored.append("?" + (pe or ""))
            hf = repo.func(f"{GA}:{helper}")
            hret = [r for r in ast.walk(hf) if isinstance(r, ast.Return)]
            hnames = [_norm(e) for e in hret[-1].value.elts] if hret and isinstance(hret[-1].value, ast.Tuple) else []
            if stored != hnames:
                problems.append(f"the helper returns {hnames} but the setter stores them as {stored} (each canonical quantity must land in the field of its name)")
            if name != "cov" and "self._cov=None" not in views(repo, ga, p.setter):
                problems.append("a previously materialised covariance is not reset")
        chk.decide("C04-R3", f"{ga.qual}.@{name}=", rec and not problems, rec, site(repo, p.setter), f"switch, {helper}, canonical tuple stored", "; ".join(problems), p.setter)
    for helper in HELPERS:
        hf = repo.func(f"{GA}:{helper}")
        g = CFG(hf)
        rd = ReachingDefs(g)
        rets = g.returns()
        if len(rets) != 1 or not isinstance(rets[0].ast.value, ast.Tuple):
            raise AnchorError(f"{helper}: single tuple return expected")
        params = set(func_params(hf))
        undefined = []
        for e in rets[0].ast.value.elts:
            nm = e.id
            if nm in params:
                continue
            if g.entry.id in rd.reaching(rets[0], nm):
                undefined.append(nm)
        chk.add("C04-R3", f"{GA}:{helper}/definite-assignment", not undefined, site(repo, hf), "every returned name is assigned on every path to the return",
                f"on some path of the shape dispatch {undefined} is returned without having been assigned (UnboundLocalError or a stale value for that input form)", hf)
        # prec convention where prec is returned
        retnames = [e.id for e in rets[0].ast.value.elts]
        for n in g.nodes:
            a = n.ast
            if isinstance(a, ast.Assign) and n.kind == "stmt" and path_of(a.targets[0]) == "prec" and "prec" in retnames \
                    and isinstance(a.value, ast.BinOp) and isinstance(a.value.op, ast.MatMult):
                l, r = _norm(a.value.left), _norm(a.value.right)
                ok = l == r + ".T"
                chk.add("C04-R3", f"{GA}:{helper}/prec-convention@{l}@{r}", ok, site(repo, a), "prec = S.T @ S",
                        f"`{unparse(a)}`: the density uses ||sqrtprec @ (x - mean)||^2, i.e. precision sqrtprec.T @ sqrtprec; `{l} @ {r}` is a different matrix "
                        f"for non-symmetric square roots, so gradient (uses prec) and log-density (uses sqrtprec) belong to different Gaussians", a)
            if isinstance(a, ast.Assign) and n.kind == "stmt" and path_of(a.targets[0]) == "sqrtprec" and "U" in {x.id for x in ast.walk(a.value) if isinstance(x, ast.Name)}:
                # only the definition that reaches the return matters
                if n.id in rd.reaching(rets[0], "sqrtprec"):
                    v = _norm(a.value)
                    ok = v == "U.T" or (v.endswith("@U.T") and "U.T@" not in v) or (v.startswith("(U@") and v.endswith(").T"))
                    chk.add("C04-R3", f"{GA}:{helper}/eigen-sqrt", ok, site(repo, a), "sqrtprec = U.T (possibly re-signed from the left)",
                            f"`{unparse(a)}`: multiplying the eigenvector square root U.T by a sign/diagonal matrix from the RIGHT changes "
                            f"sqrtprec.T @ sqrtprec (S U U.T S != U U.T); only a left factor is harmless", a)
    # matrix use of the stored precision outside setters must go through canonical fields
    psetter = ga.props["prec"].setter
    raw = any(isinstance(s, ast.Assign) and path_of(s.targets[0]) == "self._prec" and _norm(s.value) == "value" for s in ast.walk(psetter))
    uses = []
    for kind, name, fn in ga.all_functions():
        if kind == "setter":
            continue
        for b in walk_no_nested(fn):
            if isinstance(b, ast.BinOp) and isinstance(b.op, ast.MatMult) and _norm(b.left) in ("self.prec", "self._prec"):
                uses.append((name, b))
    if raw and uses:
        for name, b in uses:
            chk.fail("C04-R3", f"{ga.qual}.{name}/raw-prec-matmul", site(repo, b),
                     f"`{unparse(b)[:60]}` uses the stored precision as a matrix, but the prec setter stores the value as given (scalar (1,1) / vector / matrix): "
                     f"for a vector precision `@` is a dot product and for a scalar it fails, while cov/sqrtcov store a canonical matrix", b)
    else:
        chk.ok("C04-R3", f"{ga.qual}/canonical-precision-use", f"{GA}:{ga.node.lineno}",
               f"prec setter stores {'the raw value' if raw else 'a canonical matrix'}; {len(uses)} matrix uses of self.prec outside setters")


def _polarity(e: ast.expr) -> Optional[int]:
    """sign of the log term: +1, -1, None (= None literal), 0 unknown"""
    if isinstance(e, ast.Constant) and e.value is None:
        return None
    sign = 1
    cur = e
    while True:
        if isinstance(cur, ast.UnaryOp) and isinstance(cur.op, ast.USub):
            sign = -sign
            cur = cur.operand
            continue
        if isinstance(cur, ast.BinOp) and isinstance(cur.op, ast.Mult):
            # numeric / dim factor times something
            if isinstance(cur.left, ast.UnaryOp) and isinstance(cur.left.op, ast.USub):
                sign = -sign
                cur = ast.BinOp(left=cur.left.operand, op=cur.op, right=cur.right)
                continue
            if isinstance(cur.left, (ast.Name, ast.Constant)):
                if isinstance(cur.left, ast.Constant) and isinstance(cur.left.value, (int, float)) and cur.left.value < 0:
                    sign = -sign
                cur = cur.right
                continue
            return 0
        if isinstance(cur, ast.IfExp):
            # `v if c else None`: the polarity of the branch that is a value
            pa, pb = _polarity(cur.body), _polarity(cur.orelse)
            if pa is None or pb is None:
                other = pb if pa is None else pa
                return None if other is None else (0 if other == 0 else sign * other)
            return sign * pa if pa == pb else 0
        if isinstance(cur, ast.Call):
            cn = call_name(cur) or ""
            if cn == "getattr" and len(cur.args) == 3 and isinstance(cur.args[1], ast.Constant) and cur.args[1].value == "logdet" \
                    and isinstance(cur.args[2], ast.Constant) and cur.args[2].value is None:
                return sign      # the user-supplied attribute when present, None otherwise
            if cn in ("np.sum", "sum") and cur.args:
                cur = cur.args[0]
                continue
            if cn in ("np.log",):
                return sign
            if cn.endswith(".logdet"):
                return sign
            return 0
        if isinstance(cur, ast.Attribute) and cur.attr == "logdet":
            return sign      # LinearOperator-style attribute supplied by the user
        return 0


def _r4(chk, repo):
    from .common import best_of, canon_fn
    for helper, want in HELPERS.items():
        src = repo.func(f"{GA}:{helper}")

        def cands(_src=src):
            yield _src
            yield canon_fn(repo, None, _src, 2, rel=GA)          # branches moved into module-level private helpers: inlined again
        best_of(chk, cands(), lambda t, v, _h=helper, _w=want: _r4_on(t, repo, _h, _w, v))


def _r4_on(chk, repo, helper, want, hf):
    if True:
        nl = nr = 0
        for a in walk_no_nested(hf):
            if isinstance(a, ast.Assign) and path_of(a.targets[0]) == "logdet":
                nl += 1
                pol = _polarity(a.value)
                if pol is None:
                    chk.ok("C04-R4", f"{GA}:{helper}/logdet@{a.lineno - hf.lineno}", site(repo, a), "logdet unavailable (None) -> normalised density refused")
                    continue
                user_attr = _norm(a.value) in ("sqrtprec.logdet", "getattr(sqrtprec,'logdet',None)", "sqrtprec.logdetifhasattr(sqrtprec,'logdet')elseNone")
                if pol == 0:
                    raise AnchorError(f"{helper}: cannot read the polarity of `{unparse(a.value)}`")
                ok = pol == want or user_attr
                chk.add("C04-R4", f"{GA}:{helper}/logdet@{a.lineno - hf.lineno}", ok, site(repo, a),
                        f"logdet polarity {'+' if want > 0 else '-'}log(input)",
                        f"`{unparse(a)}` gives logdet the polarity {'+' if pol > 0 else '-'} with respect to the log of the "
                        f"{'covariance' if want > 0 else 'precision'}-type input, all sibling branches use {'+' if want > 0 else '-'}: the normalising constant "
                        f"has the wrong sign for this input form", a)
            if isinstance(a, ast.Assign) and path_of(a.targets[0]) == "rank":
                nr += 1
                v = _norm(a.value)
                ok = v in ("dim", "len(d)") or v.startswith(("nplinalg.matrix_rank(", "spa.csgraph.structural_rank("))
                chk.add("C04-R4", f"{GA}:{helper}/rank@{a.lineno - hf.lineno}", ok, site(repo, a), "rank = dim or a rank computation",
                        f"`{unparse(a)}` is not the dimension / a rank computation", a)
        if nl < 4 or nr < 4:
            raise AnchorError(f"{helper}: {nl} logdet and {nr} rank assignments found (one per input form: scalar, vector, operator, diagonal, sparse, dense)")


def _r5(chk, repo):
    ga = repo.cls(f"{GA}:Gaussian")
    lp = repo.method(ga, "logpdf")[1]
    x = func_params(lp)[1]
    from .common import views, canon_fn
    V = views(repo, ga, lp)
    Z = "-0.5*(self.rank*np.log(2*np.pi)+self.logdet.flatten())"
    rets = [r for r in ast.walk(canon_fn(repo, ga, lp, 4)) if isinstance(r, ast.Return)]
    ok = len(rets) == 1 and (f"return {Z}+self._logupdf({x})" in V or f"return self._logupdf({x})+{Z}" in V)
    rec = any("self._logupdf(" in _norm(r) for r in rets)
    chk.decide("C04-R5", f"{ga.qual}.logpdf", ok, rec, site(repo, lp), "Z(rank, logdet) + _logupdf(x), Z independent of x",
            "normalised and un-normalised Gaussian log-density do not differ by the x-independent constant -(rank log 2pi + logdet)/2", lp)
    lu = repo.method(ga, "_logupdf")[1]
    xx = func_params(lu)[1]
    # the value returned on EVERY path, closed in the argument (a conditional re-interpretation of the argument - e.g. transposing it when its leading
    # length happens to equal dim - is a second outcome)
    from .common import closed_outcomes, expected_text
    outs = closed_outcomes(repo, ga, lu)
    want = {("return", expected_text(f"-0.5*np.sum(np.square(self.sqrtprec@({xx}-self.mean).T),axis=0).flatten()"))}
    chk.add("C04-R5", f"{ga.qual}._logupdf", outs == want, site(repo, lu), "-||sqrtprec @ (x - mean)||^2 / 2 on every path",
            f"un-normalised Gaussian log-density is {sorted(outs, key=str)[:2]}: not -||sqrtprec @ (x - mean)||^2 / 2 of the argument as given on every path", lu)
    dist = repo.cls("cuqi/distribution/_distribution.py:Distribution")
    dl = repo.method(dist, "_logd")[1]
    ok = any(_norm(n.value) == "self.logpdf(*args)" for n in ast.walk(dl) if isinstance(n, ast.Return))
    chk.add("C04-R5", f"{dist.qual}._logd", ok, site(repo, dl), "_logd = logpdf", "Distribution._logd is not logpdf", dl)


PRODUCT_FORM = ["Normal", "Laplace", "SmoothedLaplace", "Cauchy", "Gamma", "InverseGamma", "Beta"]

_ERF_CONTROL = """
def cdf(self, x):
    a = 0.5*(1 + erf((x-self.mean)/(self.std*np.sqrt(2))))
    b = ndtr((x-self.mean)/(self.std*np.sqrt(2)))
    c = erf((x-self.mean)/self.std)
    d = ndtr((x-self.mean)/self.std)
    return a, b, c, d
"""


def _erf_scaling(tree):
    """(call, ok, why) for every Gaussian-tail special function: erf / erfc take the deviation in units of sqrt(2) standard deviations, ndtr / norm.cdf /
    log_ndtr in units of one standard deviation"""
    out = []
    for c in ast.walk(tree):
        if not (isinstance(c, ast.Call) and c.args):
            continue
        fn_ = (call_name(c) or "").rsplit(".", 1)[-1]
        if fn_ not in ("erf", "erfc", "ndtr", "log_ndtr") and not (call_name(c) or "").endswith("norm.cdf"):
            continue
        arg = c.args[0]
        has_sqrt2 = any((isinstance(k, ast.Call) and (call_name(k) or "").rsplit(".", 1)[-1] == "sqrt" and k.args and isinstance(k.args[0], ast.Constant) and k.args[0].value in (2, 2.0))
                        or (isinstance(k, ast.BinOp) and isinstance(k.op, ast.Pow) and isinstance(k.left, ast.Constant) and k.left.value in (2, 2.0)
                            and isinstance(k.right, ast.Constant) and k.right.value == 0.5)
                        or (isinstance(k, ast.Attribute) and k.attr == "SQRT2") for k in ast.walk(arg))
        scaled = any(isinstance(k, ast.BinOp) and isinstance(k.op, ast.Div) for k in ast.walk(arg))      # a standardised deviation, not a bare number
        if not scaled:
            continue
        if fn_ in ("erf", "erfc"):
            out.append((c, has_sqrt2, "erf((x - m)/(s*sqrt(2)))"))
        else:
            out.append((c, not has_sqrt2, "ndtr((x - m)/s)"))
    return sorted(out, key=lambda r: (r[0].lineno, r[0].col_offset))


def _r2_special_functions(chk, repo):
    ctl = _erf_scaling(ast.parse(_ERF_CONTROL))
    if [ok for _, ok, _ in ctl] != [True, False, False, True]:
        raise AnchorError(f"erf-scaling positive control did not fire as expected: {[ok for _, ok, _ in ctl]}")
    n = 0
    for rel in sorted(repo.modules):
        if not rel.startswith("cuqi/distribution/"):
            continue
        m = repo.modules[rel]
        for c, ok, want in _erf_scaling(m.tree):
            n += 1
            chk.add("C04-R2", f"{rel}/tail-function@{unparse(c.func)}", ok, f"{rel}:{c.lineno}", f"argument in the function's own units: {want}",
                    f"`{unparse(c)[:80]}`: the standardised deviation is scaled for the other Gaussian tail function (expected the form {want}); the cdf is that of "
                    f"a Gaussian with a different standard deviation than pdf / logpdf describe", c)
    if n < 1:
        raise AnchorError("no Gaussian tail function found in cuqi/distribution (Normal.cdf confirmed by hand)")


def _r6(chk, repo):
    n = 0
    for ci in repo.classes:
        if ci.name not in PRODUCT_FORM or not ci.module.rel.startswith("cuqi/distribution/") or "logpdf" not in ci.methods:
            continue
        n += 1
        fn = ci.methods["logpdf"]
        x = func_params(fn)[1]
        problems = []
        for c in ast.walk(fn):
            if isinstance(c, ast.Call) and call_name(c) in ("np.sum", "sum") and c.args:
                names = {m.id for m in ast.walk(c.args[0]) if isinstance(m, ast.Name)}
                reads_param = any(isinstance(m, ast.Attribute) and path_of(m.value) == "self" for m in ast.walk(c.args[0]))
                if x not in names and reads_param:
                    problems.append(f"`{unparse(c)[:70]}` sums a parameter-only term over the parameter array's own length: a scalar parameter on a "
                                    f"d-dimensional distribution contributes once instead of d times (use one sum over the expression containing {x}, or dim * term)")
        rets = [r.value for r in ast.walk(fn) if isinstance(r, ast.Return) and r.value is not None]
        for v in rets:
            if isinstance(v, ast.Constant) or "inf" in _norm(v).lower():
                continue
            # the returned value must be a scalar aggregate: np.sum(...) (possibly of scipy's logpdf), not an element-wise vector
            top = v
            if not (isinstance(top, ast.Call) and call_name(top) in ("np.sum", "sum")):
                if not any(isinstance(c, ast.Call) and call_name(c) in ("np.sum", "sum", "np.linalg.norm") for c in ast.walk(top)) or \
                        any(isinstance(m, ast.Attribute) and path_of(m) == "self.dim" for m in ast.walk(top)):
                    problems.append(f"`{unparse(v)[:80]}` is not a single sum over the broadcast per-component expression: vector-valued parameters "
                                    f"give an element-wise (vector) result or a constant counted with the wrong multiplicity")
        chk.add("C04-R6", f"{ci.qual}.logpdf", not problems, site(repo, fn), "one aggregate over the broadcast per-component log-density", "; ".join(problems), fn)
    if n < 6:
        raise AnchorError(f"{n} product-form log-densities found, 6 confirmed by hand")


# ------------------------------------------------------------------------------------------------ R9
def _refresh_meaning(test: ast.expr):
    """(exists_diff: bool, A, B) for the recognised comparison forms, None if the form is unknown."""
    neg = False
    e = test
    while isinstance(e, ast.UnaryOp) and isinstance(e.op, ast.Not):
        neg = not neg
        e = e.operand
    if isinstance(e, ast.Call) and (call_name(e) or "").rsplit(".", 1)[-1] in ("all", "any") and len(e.args) == 1:
        q = (call_name(e) or "").rsplit(".", 1)[-1]
        c = e.args[0]
        if isinstance(c, ast.Compare) and len(c.ops) == 1 and isinstance(c.ops[0], (ast.Eq, ast.NotEq)):
            rel_ne = isinstance(c.ops[0], ast.NotEq)
            # truth of the test as a statement about the entries
            #   any(!=) -> exists diff ; all(==) -> no diff ; all(!=) -> all differ ; any(==) -> some equal
            if q == "any" and rel_ne:
                meaning = "exists-diff"
            elif q == "all" and not rel_ne:
                meaning = "no-diff"
            elif q == "all" and rel_ne:
                meaning = "all-differ"
            else:
                meaning = "some-equal"
            if neg:
                meaning = {"exists-diff": "no-diff", "no-diff": "exists-diff", "all-differ": "some-equal", "some-equal": "all-differ"}[meaning]
            return meaning, c.left, c.comparators[0]
    if isinstance(e, ast.Call) and (call_name(e) or "").rsplit(".", 1)[-1] == "array_equal" and len(e.args) == 2:
        return ("exists-diff" if neg else "no-diff"), e.args[0], e.args[1]
    return None


def _r9(chk, repo):
    LN = "cuqi/distribution/_lognormal.py"
    ci = repo.cls(f"{LN}:Lognormal")
    p = ci.props.get("_normal")
    if p is None or p.getter is None:
        raise AnchorError("Lognormal._normal getter not found")
    from .common import canon_fn
    fn = canon_fn(repo, ci, p.getter, 3)          # local names for the mirror / the parameters / the comparison results substituted away
    g = CFG(fn)
    rets = g.returns()
    if len(rets) != 1 or path_of(rets[0].ast.value) is None:
        raise AnchorError("Lognormal._normal: single `return self.<mirror>` expected")
    mirror = path_of(rets[0].ast.value)
    # which evaluation entry points go through the mirror
    users = [name for kind, name, f in ci.all_functions() if kind == "method" and any(path_of(a) == "self._normal" for a in ast.walk(f))]
    if len(users) < 3:
        raise AnchorError("Lognormal: evaluation methods no longer go through self._normal")
    ga = repo.cls(f"{GA}:Gaussian")
    init = repo.method(ci, "__init__")[1]
    ctor = [c for c in ast.walk(init) if isinstance(c, ast.Call) and call_name(c) == "Gaussian"]
    if len(ctor) != 1:
        raise AnchorError("Lognormal.__init__: inner Gaussian construction not found")
    mirrored = [path_of(a).split(".", 1)[1] for a in ctor[0].args if (path_of(a) or "").startswith("self.")]
    for f in mirrored:
        assigns = [n for n in g.nodes if n.kind == "stmt" and isinstance(n.ast, ast.Assign) and path_of(n.ast.targets[0]) == f"{mirror}.{f}"
                   and path_of(n.ast.value) == f"self.{f}"]
        if not assigns:
            chk.fail("C04-R9", f"{ci.qual}.@_normal/{f}", site(repo, fn), f"the inner Gaussian's `{f}` is never refreshed from self.{f}: after `X.{f} = v` "
                     f"logpdf/cdf/sample keep using the old value", fn)
            continue
        a = assigns[0]
        guards = g.guards_of(a)
        problems = []
        for t, label in guards:
            m = _refresh_meaning(t.ast)
            if m is None:
                raise AnchorError(f"Lognormal._normal: refresh guard `{unparse(t.ast)}` has an unrecognised form")
            meaning, A, B = m
            if {path_of(A), path_of(B)} != {f"{mirror}.{f}", f"self.{f}"}:
                problems.append(f"guard `{unparse(t.ast)}` does not compare the mirror's `{f}` with self.{f}")
                continue
            taken = meaning if label == "T" else {"exists-diff": "no-diff", "no-diff": "exists-diff", "all-differ": "some-equal", "some-equal": "all-differ"}[meaning]
            if taken != "exists-diff":
                problems.append(f"`{unparse(t.ast)}` refreshes only when {taken.replace('-', ' ')}: a new value that shares an entry with the old one "
                                f"(a partial update, another diagonal matrix) leaves the inner Gaussian stale")
        chk.add("C04-R9", f"{ci.qual}.@_normal/{f}", not problems, site(repo, a.ast), f"refreshed whenever some entry of `{f}` differs", "; ".join(problems), a.ast)
