"""C01 — conditioning a joint distribution preserves the joint log-density (structural clauses).

 R1 refusal dominates evaluation: malformed evaluations (positional+keyword, wrong names, missing conditioning variables,
    doubly specified variables) are refused before anything is evaluated
 R2 constants are carried: every reduction returns the joint itself, a density constructed from ALL factors, or a density to
    which the sum of the evaluated (fixed) factors was added; the un-normalised log-density of every Density adds its folded
    constant; a fully conditioned distribution becomes an EvaluatedDensity of its logd (constant included)
 R3 factor enumeration: evaluation and conditioning loop over the complete factor list, selecting each factor's own variables
 R4 one table for names and sizes in the stacked view; keyword evaluation re-orders by the parameter-name list
 R5 conditioning replaces every factor by a conditioned copy before reducing (shared with C11-R3)
"""
from __future__ import annotations
import ast
from typing import List

from ..index import Repo, AnchorError
from ..cfg import CFG, path_of
from ..astutil import unparse, call_name, func_params, strip_docstring
from .common import site, canon_fn, cfgv, pmatch, nodes_matching, guarded, match, stmts, views
from ..pattern import norm as pn, unify, find
from ..flow import Expander

JD = "cuqi/distribution/_joint_distribution.py"


def _norm(e) -> str:
    from .common import vstr
    return vstr(e)


def run(chk, repo: Repo):
    chk.rule("C01-R1", "validation guards dominate the evaluation / conditioning they protect; values given by name reach the conditioned copy by name; "
                       "nothing the caller gave is dropped: the positional main parameter is evaluated alone only when no other keyword is left over, "
                       "Distribution._condition returns only after unused keywords were looked at and (if there are some) the refusal of unknown names was passed, "
                       "JointDistribution._condition refuses a name that no factor accepts; callable parameters receive the matched values by name (`f(**matched)`)", floor=9)
    chk.rule("C01-R2", "no folded constant and no factor is lost by reduction, evaluation or full conditioning; `_constant` is only added to; a Posterior is constructed only at tabled sites or handed to _add_constants_to_density; "
                       "the raw evaluation `_logd` is called from Density.logd only; a likelihood stores the observation it was given", floor=8)
    chk.rule("C01-R6", "partially conditioned callables keep the arguments they were given: no closure created inside the conditioning loops captures a "
                       "loop variable by reference (late binding: every stored closure would see the LAST variable's callable and arguments)", floor=8)
    from ..latebind import latebind_rule
    latebind_rule(chk, repo, "C01-R6", ("cuqi/distribution/", "cuqi/density/", "cuqi/likelihood/", "cuqi/implicitprior/"))
    chk.rule("C01-R3", "evaluation and conditioning enumerate the complete factor list with per-factor variable selection", floor=2)
    chk.rule("C01-R4", "stacked view: sizes and names from the same enumeration; keyword evaluation ordered by parameter names", floor=4)
    chk.rule("C01-R5", "conditioning replaces every factor by a conditioned copy, then reduces (C11-R3)", floor=3)
    _r1(chk, repo)
    _r2(chk, repo)
    _r2_constant_writers(chk, repo)
    _r2_single_evaluation_point(chk, repo)
    _r2_posterior_builders(chk, repo)
    _r3_r4(chk, repo)
    # R5 shared with C11-R3
    from . import c11
    from .common import shadow
    shadow(chk, "C11-R3", "C01-R5", lambda c: c11._r3(c, repo))


POSTERIOR_BUILDERS = {
    # (module, function) -> why a Posterior may be constructed there
    ("cuqi/distribution/_joint_distribution.py", "_reduce_to_single_density"): "the reduction itself; the result goes through _add_constants_to_density",
    ("cuqi/sampler/_rto.py", "LinearRTO"): "legacy LinearRTO builds likelihood and prior from the user's 5-tuple (constructor or a private helper of it); no reduced density is involved",
}


def _r2_posterior_builders(chk, repo):
    """who may construct a Posterior: a Posterior assembled from the likelihood and prior of an existing (reduced) target starts with constant 0, i.e. without the
    log-densities of the variables that were fixed to obtain that target. Construction sites are an explicit table; a new site must hand its result to
    _add_constants_to_density (or be confirmed and tabled)."""
    from ..index import enclosing_function
    n = 0
    for m in repo.modules.values():
        for c in ast.walk(m.tree):
            if isinstance(c, ast.Call) and (call_name(c) or "").split(".")[-1] == "Posterior" and len(c.args) + len(c.keywords) >= 2:
                ef = enclosing_function(c)
                key = (m.rel, ef.name if ef else "<module>")
                from ..index import enclosing_class
                ec = enclosing_class(c)
                if ec is not None and (m.rel, ec.name) in POSTERIOR_BUILDERS:
                    key = (m.rel, ec.name)            # tabled per class: which method of the class holds the construction is free
                n += 1
                wrapped = isinstance(getattr(c, "_parent", None), ast.Call) and (call_name(c._parent) or "").endswith("_add_constants_to_density")
                ok = key in POSTERIOR_BUILDERS or wrapped
                chk.add("C01-R2", f"{m.rel}:{key[1]}/Posterior-constructed", ok, f"{m.rel}:{c.lineno}",
                        POSTERIOR_BUILDERS.get(key, "result handed to _add_constants_to_density"),
                        f"`{unparse(c)[:70]}` assembles a new Posterior from parts: its constant starts at 0, so the log-densities folded into the target these parts "
                        f"come from (hyper-parameters fixed earlier) are dropped - conditioning through this path no longer equals the joint log-density", c)
    if n < 2:
        raise AnchorError(f"{n} Posterior constructions found, 2 confirmed by hand")


def _r2_single_evaluation_point(chk, repo):
    """The folded constant is added in exactly one place, Density.logd (`self._logd(*args) + self._constant`): no other code evaluates `_logd` directly
    (a positional fast path in a subclass's logd would return the density WITHOUT the contributions of the variables fixed earlier).  And the value a
    likelihood fixes its data variable to is stored as given (a re-representation of the observation changes what the density is evaluated at on this
    route only, so the result depends on the order of conditioning)."""
    sites = []
    for m in repo.modules.values():
        if not m.rel.startswith(("cuqi/density/", "cuqi/distribution/", "cuqi/likelihood/", "cuqi/implicitprior/")):
            continue
        for ci in m.classes.values():
            for kind, name, fn in ci.all_functions():
                for c in ast.walk(fn):
                    if isinstance(c, ast.Call) and isinstance(c.func, ast.Attribute) and c.func.attr == "_logd":
                        sites.append((m.rel, ci.name, name, c))
    outside = [s_ for s_ in sites if not (s_[1] == "Density" and s_[2] == "logd")]
    chk.add("C01-R2", "cuqi/density/_density.py:Density.logd/only-caller-of-_logd", len(sites) >= 1 and not outside,
            f"{outside[0][0]}:{outside[0][3].lineno}" if outside else "cuqi/density/_density.py:1", "`_logd` is evaluated only by Density.logd, which adds the folded constant",
            f"{outside[0][1] + '.' + outside[0][2] if outside else ''} evaluates `{unparse(outside[0][3])[:60] if outside else ''}` directly: on that path the log-density lacks `_constant`, "
            f"the contributions of the variables fixed earlier", outside[0][3] if outside else None)
    from .common import assigned_values
    lk = repo.cls("cuqi/likelihood/_likelihood.py:Likelihood")
    init = repo.method(lk, "__init__")[1]
    dp = func_params(init)[2]
    vals = assigned_values(repo, lk, init, "self.data")
    rebound = [n for n in ast.walk(init) if isinstance(n, ast.Name) and n.id == dp and isinstance(n.ctx, (ast.Store, ast.Del))]
    if rebound:
        vals = vals + [f"<{dp} re-bound at line {rebound[0].lineno}>"]
    chk.add("C01-R2", f"{lk.qual}.__init__/data-as-given", vals == [dp], site(repo, init), "the observation is stored as given",
            f"Likelihood stores `{vals}` for its data, not the given object `{dp}`: fixing the data variable through a likelihood evaluates the density at another "
            f"value than fixing it through JointDistribution.logd / an EvaluatedDensity does", init)


def _r2_constant_writers(chk, repo):
    """who may write the folded constant: `_constant` starts at 0 in Density.__init__ and is only ever *added to* (x._constant = x._constant + c / +=,
    temporaries resolved). Any other store resets or overwrites what an earlier reduction folded in - a later copy / conditioning of the reduced density
    then loses the log-densities of the variables that were fixed before."""
    from ..index import enclosing_class
    from ..flow import Expander
    n = 0
    for m in repo.modules.values():
        for fn in [x for x in ast.walk(m.tree) if isinstance(x, ast.FunctionDef)]:
            if not any(isinstance(t, ast.Attribute) and t.attr == "_constant" and isinstance(t.ctx, ast.Store) for t in ast.walk(fn)):
                continue
            ec = enclosing_class(fn)
            ci = next((c for c in m.classes.values() if c.node is ec), None) if ec is not None else None
            ex = Expander(canon_fn(repo, ci, fn, 1, rel=m.rel))
            for nd in ex.cfg.nodes:
                a = nd.ast
                if nd.kind != "stmt" or not isinstance(a, (ast.Assign, ast.AugAssign)):
                    continue
                tgts = a.targets if isinstance(a, ast.Assign) else [a.target]
                for t in tgts:
                    if not (isinstance(t, ast.Attribute) and t.attr == "_constant"):
                        continue
                    n += 1
                    where = f"{m.rel}:{(ec.name + '.') if ec else ''}{fn.name}"
                    obj = path_of(t.value)
                    if isinstance(a, ast.AugAssign):
                        ok, why = isinstance(a.op, ast.Add), "added to"
                    else:
                        v = ex.expand(a.value, nd)
                        init0 = fn.name == "__init__" and obj == "self" and isinstance(v, ast.Constant) and v.value == 0
                        adds = isinstance(v, ast.BinOp) and isinstance(v.op, ast.Add) and f"{obj}._constant" in (path_of(v.left), path_of(v.right))
                        ok, why = init0 or adds, "initialised to 0 in the constructor" if init0 else "added to"
                    chk.add("C01-R2", f"{where}/_constant-store", ok, f"{m.rel}:{getattr(a, 'lineno', fn.lineno)}", f"`{obj}._constant` is {why}",
                            f"`{unparse(a)[:90]}` overwrites the constant a reduced density carries (the log-densities of the variables fixed so far): copying or "
                            f"conditioning such a density again drops them, so conditioning in several steps no longer equals the joint log-density", a)
    if n < 2:
        raise AnchorError(f"{n} stores of `_constant` found, 2 confirmed by hand (Density.__init__, _add_constants_to_density)")


def _one(nodes, what):
    if len(nodes) != 1:
        return None
    return nodes[0]


def _r1(chk, repo):
    """All rules below are decided on the canonical view (structural normal form, private helpers inlined, temporaries substituted);
    local names are metavariables. `recognised` = the protected statement itself was found."""
    dens = repo.cls("cuqi/density/_density.py:Density")
    f = repo.method(dens, "logd")[1]
    v, g = cfgv(repo, dens, f)
    # the protected step: keyword values are turned into the positional list that is evaluated
    reord = nodes_matching(g, "$a=[kwargs[_k0] for _k0 in $pn]")
    ret = [n for n in g.returns() if "self._logd(*" in pn(n.ast)]
    if not reord:
        # ... or built in place in the evaluating statement: return self._logd(*[kwargs[k] for k in names]) + ...
        for n in ret:
            for c_ in ast.walk(n.ast):
                if isinstance(c_, ast.ListComp):
                    b_ = pmatch("[kwargs[_k0] for _k0 in $pn]", c_)
                    if b_ is not None:
                        reord.append((n, b_))
    rec = len(reord) == 1 and len(ret) >= 1
    r0 = reord[0][0] if rec else None
    chk.decide("C01-R1", f"{dens.qual}.logd/positional+keyword", rec and (guarded(g, r0, "0<len(args)", "F") or guarded(g, r0, "len(args)==0", "T") or guarded(g, r0, "args", "F")),
               rec, site(repo, f), "positional and keyword arguments together are refused", "positional and keyword arguments can be mixed in an evaluation", f)
    b = reord[0][1] if rec else {}
    ok = rec and (guarded(g, r0, "set($pn)!=set(kwargs.keys())", "F", b) or guarded(g, r0, "set(kwargs.keys())!=set($pn)", "F", b)
                  or guarded(g, r0, "set($pn)==set(kwargs.keys())", "T", b) or guarded(g, r0, "set(kwargs.keys())==set($pn)", "T", b)
                  or guarded(g, r0, "set(kwargs)!=set($pn)", "F", b) or guarded(g, r0, "set($pn)!=set(kwargs)", "F", b))
    chk.decide("C01-R1", f"{dens.qual}.logd/names", ok, rec, site(repo, f),
               "keyword names must equal the parameter names", "an evaluation with missing or unknown keyword names is not refused", f)

    jd = repo.cls(f"{JD}:JointDistribution")
    f = repo.method(jd, "logd")[1]
    v, g = cfgv(repo, jd, f, 4)       # helpers not inlined: the rule is about the call of _parse_args_add_to_kwargs
    # where the factors are evaluated: the loop over self._densities, or the statement holding its normal form (a sum over a generator)
    loops = [n for n in g.nodes if n.kind == "iter" and path_of(n.ast.iter) == "self._densities"] + \
            [n for n in g.nodes if n.kind in ("stmt", "return") and n.ast is not None
             and any(isinstance(c_, ast.comprehension) and path_of(c_.iter) == "self._densities" for c_ in ast.walk(n.ast))]
    rec = len(loops) == 1
    l0 = loops[0] if rec else None
    ok = rec and any(guarded(g, l0, p, lab) for p, lab in (("set(kwargs.keys())!=set(self.get_parameter_names())", "F"), ("set(self.get_parameter_names())!=set(kwargs.keys())", "F"),
                                                             ("set(kwargs.keys())==set(self.get_parameter_names())", "T"), ("set(self.get_parameter_names())==set(kwargs.keys())", "T"),
                                                             ("set(kwargs)!=set(self.get_parameter_names())", "F"), ("set(self.get_parameter_names())!=set(kwargs)", "F"),
                                                             ("set(kwargs)==set(self.get_parameter_names())", "T"), ("set(self.get_parameter_names())==set(kwargs)", "T")))
    chk.decide("C01-R1", f"{jd.qual}.logd/names", ok, rec, site(repo, f),
               "all and only the joint's parameters must be given", "joint evaluation with missing/unknown variables is not refused", f)
    pk = nodes_matching(g, "kwargs=self._parse_args_add_to_kwargs(*args,**kwargs)")
    chk.decide("C01-R1", f"{jd.qual}.logd/parse", rec and len(pk) == 1 and g.dominates(pk[0][0], l0), rec, site(repo, f),
               "positional arguments merged (with duplicate check) first", "positional arguments are not merged through _parse_args_add_to_kwargs before evaluation", f)
    dist = repo.cls("cuqi/distribution/_distribution.py:Distribution")
    for ci, fname in ((jd, "_parse_args_add_to_kwargs"), (dist, "_parse_args_add_to_kwargs")):
        f = repo.method(ci, fname)[1]
        from ..flow import Expander
        from ..canon import _SymOrder
        v = canon_fn(repo, ci, f, 1)
        ex = Expander(v)
        g = ex.cfg

        def xt(e, at):       # test / expression with every temporary replaced by its definition, in canonical operand order
            return pn(_SymOrder().visit(ex.expand(e, at, stop=frozenset({"kwargs", "args"}))))
        st = [n for n in g.nodes if n.kind == "stmt" and isinstance(n.ast, ast.Assign) and isinstance(n.ast.targets[0], ast.Subscript)
              and path_of(n.ast.targets[0].value) == "kwargs"]
        rec = len(st) == 1
        ok = False
        if rec:
            K = xt(st[0].ast.targets[0].slice, st[0])
            ok = any(lab == "F" and xt(t.ast, t) == pn(f"{K} in kwargs") for t, lab in g.guards_of(st[0]))
        chk.decide("C01-R1", f"{ci.qual}.{fname}/double", ok, rec, site(repo, f), "a variable given positionally and by keyword is refused",
                   "a variable can be passed both positionally and by keyword", f)
        # which name a positional value is filed under: the i-th of the CURRENT parameter names (joint: get_parameter_names(), which shrinks as
        # variables are fixed; distribution: the conditioning variables followed by the main parameter), and the value is the i-th argument
        if rec:
            loops = [n for n in g.nodes if n.kind == "iter" and pn(n.ast.iter) == "enumerate(args)" and isinstance(n.ast.target, ast.Tuple) and len(n.ast.target.elts) == 2]
            idx, el = (pn(loops[0].ast.target.elts[0]), pn(loops[0].ast.target.elts[1])) if len(loops) == 1 else (None, None)
            V = xt(st[0].ast.value, st[0])
            if ci is jd:
                seqs = {"self.get_parameter_names()"}
            else:
                cv_ = func_params(f)[1]
                base = (f"copy({cv_})", f"list({cv_})", f"{cv_}.copy()", f"{cv_}[:]", cv_)
                seqs = {w for w in base[:-1]} | {f"({w}+['_main_parameter'])" for w in base}
            want = {pn(f"{w}[{idx}]") for w in seqs}
            if idx is None:
                # the same pairing spelled with zip: for key, value in zip(<names>, args)
                zl = [n for n in g.nodes if n.kind == "iter" and isinstance(n.ast.iter, ast.Call) and call_name(n.ast.iter) == "zip" and len(n.ast.iter.args) == 2
                      and isinstance(n.ast.target, ast.Tuple) and len(n.ast.target.elts) == 2]
                if len(zl) == 1:
                    a0, a1 = (xt(a_, zl[0]) for a_ in zl[0].ast.iter.args)
                    t0, t1 = (pn(t_) for t_ in zl[0].ast.target.elts)
                    if a1 == "args":
                        seq_t, key_v, el = a0, t0, t1
                    elif a0 == "args":
                        seq_t, key_v, el = a1, t1, t0
                    else:
                        seq_t = key_v = None
                    if seq_t is not None:
                        idx = "<zip>"
                        want = {key_v} if seq_t in {pn(w) for w in seqs} | {pn(w.strip("()")) for w in seqs} else set()
            chk.decide("C01-R1", f"{ci.qual}.{fname}/order", K in want and V == el, idx is not None, site(repo, f),
                       "the i-th positional value is filed under the i-th current parameter name",
                       f"positional values are filed under `{K}` (value `{V}`), not under the i-th of the object's current parameter names: after some variables "
                       f"are fixed, positional evaluation / conditioning addresses the wrong variables", f)
        if ci is dist:
            cv = func_params(f)[1]
            gs = [(xt(t.ast, t), lab) for t, lab in g.guards_of(st[0])] if rec else []
            ok = rec and any((tx in (pn(f"len({cv})+1<len(args)"), pn(f"1+len({cv})<len(args)")) and lab == "F") or
                             (tx in (pn(f"len(args)<=len({cv})+1"), pn(f"len(args)<=1+len({cv})")) and lab == "T") for tx, lab in gs)
            chk.decide("C01-R1", f"{dist.qual}._parse_args_add_to_kwargs/arity", ok, rec, site(repo, f), "too many positional values are refused",
                       "too many positional values are accepted", f)
    f = repo.method(dist, "logd")[1]
    v, g = cfgv(repo, dist, f)
    # the protected step: the conditional is evaluated through its conditioned copy self(**{cond var: value})
    cond = [(n, b) for n, b in nodes_matching(g, "$nd=self(**{_k0:$kw[_k0] for _k0 in $cv})")]
    rec = len(cond) == 1
    c0, b = (cond[0] if rec else (None, {}))
    ok = rec and (guarded(g, c0, "len($kw)<len($cv)+1", "F", b))
    chk.decide("C01-R1", f"{dist.qual}.logd/enough", ok, rec, site(repo, f), "too few values refused", "too few values are not refused", f)
    ok = rec and (guarded(g, c0, "all([_k0 in $kw for _k0 in $cv])", "T", b) or guarded(g, c0, "all((_k0 in $kw for _k0 in $cv))", "T", b))
    chk.decide("C01-R1", f"{dist.qual}.logd/all-cond-vars", ok, rec, site(repo, f),
               "every conditioning variable must be given", "an evaluation with a missing conditioning variable is not refused", f)
    ok = rec and len(nodes_matching(g, "$cv=self.get_conditioning_variables()", b)) == 1
    chk.decide("C01-R1", f"{dist.qual}.logd/predicates", ok, rec, site(repo, f), "predicates count main parameter + conditioning variables of this distribution",
               "validation predicates do not refer to the distribution's own conditioning variables", f)
    # conditional distributions are evaluated only after conditioning (never on self)
    direct = [n for n in g.returns() if "super().logd(" in pn(n.ast)]
    rec2 = len(direct) == 1
    ok = rec2 and rec and (guarded(g, direct[0], "0<len($cv)", "F", b) or guarded(g, direct[0], "len($cv)==0", "T", b))
    chk.decide("C01-R1", f"{dist.qual}.logd/conditional-first", ok, rec2 and rec, site(repo, f), "a conditional distribution is evaluated only through its conditioned copy",
               "a distribution with open conditioning variables can be evaluated directly", f)
    # how the remaining values are handed to the conditioned copy: by position only the value the caller gave by position ("_main_parameter");
    # everything given by NAME is passed on by name, so that Density.logd refuses a name that is not the main parameter
    if rec:
        nd = b.get("nd")
        exf = Expander(v)
        inner = [(n, c) for n in exf.cfg.nodes if n.ast is not None and n.kind in ("return", "stmt") for c in ast.walk(n.ast)
                 if isinstance(c, ast.Call) and isinstance(c.func, ast.Attribute) and c.func.attr == "logd" and path_of(c.func.value) == nd]
        bad = []
        for n, c in inner:
            for a in c.args:
                if isinstance(a, ast.Starred):
                    bad.append(f"`{unparse(c)[:70]}` passes the remaining values by position and drops their names")
                else:
                    t = pn(exf.expand(a, n, stop=frozenset({"kwargs"})))
                    if t not in (pn("kwargs['_main_parameter']"), pn("kwargs.get('_main_parameter')")):
                        bad.append(f"`{unparse(c)[:70]}` passes `{t}` by position")
        chk.decide("C01-R1", f"{dist.qual}.logd/names-kept", not bad and bool(inner), bool(inner), site(repo, f), "values given by name reach the conditioned copy by name",
                   "; ".join(bad) + ": a keyword that is not the distribution's main parameter is no longer refused (an evaluation with an unknown variable name returns a number)", f)
        # ... and nothing the caller gave is dropped: a call that hands over the positional main parameter ONLY is reached only when the keyword map holds
        # nothing besides the conditioning variables and that value (a doubly specified main parameter `d.logd(s, x, x=other)` or an unknown name
        # `d.logd(s, x, zzz=1)` would otherwise be ignored and a number returned)
        kw_, cv_ = b.get("kw", "kwargs"), b.get("cv")
        LEFT = (f"[_k0 for _k0 in {kw_} if _k0 not in {cv_} and _k0!='_main_parameter']", f"[_k0 for _k0 in {kw_} if _k0!='_main_parameter' and _k0 not in {cv_}]",
                f"[_k0 for _k0 in {kw_}.keys() if _k0 not in {cv_} and _k0!='_main_parameter']", f"set({kw_})-set({cv_})-{{'_main_parameter'}}",
                f"set({kw_})-{{'_main_parameter'}}-set({cv_})")
        GUARDS = [(f"len({kw_})>len({cv_})+1", "F"), (f"len({cv_})+1<len({kw_})", "F"), (f"len({kw_})!=len({cv_})+1", "F"), (f"len({kw_})==len({cv_})+1", "T"),
                  (f"len({kw_})<=len({cv_})+1", "T")]
        for L_ in LEFT:
            GUARDS += [(f"0<len({L_})", "F"), (f"len({L_})>0", "F"), (f"len({L_})==0", "T"), (f"len({L_})!=0", "F"), (L_, "F")]
        dropped = []
        for n, c in inner:
            if c.keywords or not c.args:
                continue              # passes the named values on (checked above), or is the by-name call
            gn = g.stmt_node_containing(c) or n
            # the guard as written, or with the local it tests replaced by its definition (`extra = set(kw) - ...; if extra: raise`)
            exg = Expander(v, g)
            seen = {(pn(exg.expand(t_.ast, t_, stop=frozenset({kw_, cv_}))), lab_) for t_, lab_ in g.guards_of(gn)}
            flip = {"T": "F", "F": "T"}
            seen |= {(tx_[3:] if tx_.startswith("not") and not tx_[3:4].isalnum() else None, flip[lab_]) for tx_, lab_ in seen}
            # ... or any spelling of "the keywords that are neither conditioning variables nor the positional main parameter" (nested comprehensions,
            # a loop that collected them) tested for emptiness
            sem = False
            for t_, lab_ in g.guards_of(gn):
                core = _emptiness_core(exg.expand(t_.ast, t_, stop=frozenset({kw_, cv_})))
                if core is not None and lab_ != core[1] and _excluded(core[0], kw_, cv_) >= {"cv", "main"}:
                    sem = True
            if not sem and not any(guarded(g, gn, p_, lab) for p_, lab in GUARDS) and not any((pn(p_), lab) in seen for p_, lab in GUARDS):
                dropped.append(f"`{unparse(c)[:70]}` is reached with keywords besides the conditioning variables still in `{kw_}`")
        chk.decide("C01-R1", f"{dist.qual}.logd/nothing-dropped", not dropped and bool(inner), bool(inner), site(repo, f),
                   "the positional main parameter is evaluated alone only when no other keyword is left over",
                   "; ".join(dropped) + ": a doubly specified main parameter or an unknown keyword is silently ignored and a number is returned instead of an error", f)
    cnd = repo.method(dist, "_condition")[1]
    S = stmts(repo, dist, cnd)
    b1, _ = unify(["$mv=self.get_mutable_variables()", "$cv=self.get_conditioning_variables()", "for: $k : kwargs.keys()", "if: $k in $mv and $k not in $cv"], S)
    b2 = None
    if b1:
        for alt in ("if: $k2 not in $mv+$cv+[self.name]", "if: $k2 in $mv+$cv+[self.name]"):
            b2, _ = unify([alt], S, b1, distinct=False)
            if b2:
                break
    rec = any(t.startswith("for:") and t.endswith("kwargs.keys()") for t, _ in S)
    chk.decide("C01-R1", f"{dist.qual}._condition/unknown-keywords", bool(b1 and b2), rec, site(repo, cnd), "unknown keywords and fixed mutable variables are refused",
               "conditioning accepts unknown keywords", cnd)
    _r1_leftover(chk, repo, dist, cnd)
    _r1_joint_unknown(chk, repo)
    _r1_callable_by_name(chk, repo, dist, cnd)


def _r1_callable_by_name(chk, repo, dist, cnd):
    """Distribution._condition: a callable parameter (`mean=lambda a, b: ..`) receives the values the caller fixed BY NAME (`f(**matched)`,
    `partial(f, **matched)`): the matched values are collected in the order of the caller's keywords, so handing them over by position assigns them to
    the callable's parameters in the wrong order whenever the two orders differ (a wrong number, or a TypeError in a later conditioning step)."""
    src_cnd, cnd = cnd, canon_fn(repo, dist, cnd, 2)           # private helpers (a "condition one callable variable" step) inlined
    held = {t.id for a in ast.walk(cnd) if isinstance(a, ast.Assign) and isinstance(a.value, ast.Call) and call_name(a.value) == "getattr"
            and len(a.value.args) >= 2 and path_of(a.value.args[0]) == "self" for t in a.targets if isinstance(t, ast.Name)}
    calls = []
    for c in ast.walk(cnd):
        if not isinstance(c, ast.Call):
            continue
        if isinstance(c.func, ast.Name) and c.func.id in held:
            calls.append((c, c.args, c.keywords))
        elif (call_name(c) or "").rsplit(".", 1)[-1] == "partial" and c.args and isinstance(c.args[0], ast.Name) and c.args[0].id in held:
            calls.append((c, c.args[1:], c.keywords))
    bad = [c for c, args, kws in calls if args or any(k.arg is not None for k in kws) or not kws]
    chk.decide("C01-R1", f"{dist.qual}._condition/callable-by-name", bool(calls) and not bad, bool(calls), site(repo, bad[0] if bad else cnd),
               f"{len(calls)} invocation(s) of a callable parameter, each with **<matched values>",
               f"`{unparse(bad[0])[:80] if bad else ''}` hands the matched values to the callable parameter by position (or not as one name->value mapping): "
               f"they are collected in the order of the caller's keywords, not of the callable's signature", bad[0] if bad else cnd)


def _r1_joint_unknown(chk, repo):
    """JointDistribution._condition: a keyword that no factor accepts is refused before the factors are conditioned (otherwise it is silently ignored:
    `J(x=.., y=.., zzz=1).logd()` is a number for an assignment with an unknown variable, `J(Y=data)` is the joint unconditioned)"""
    jd = repo.cls(f"{JD}:JointDistribution")
    cnd = repo.method(jd, "_condition")[1]
    v, g = cfgv(repo, jd, cnd, 2)
    ex = Expander(v, g)
    # where the factors are conditioned, however the new list is built: the value returns of the function (all of them lie behind the conditioning)
    stores = [n for n in g.returns() if n.ast.value is not None]
    rec = len(stores) >= 1
    ok = False
    if rec:
        for t in g.tests():
            tx = pn(ex.expand(t.ast, t, stop=frozenset({"kwargs"})))
            if "get_parameter_names()" not in tx:
                continue
            # one edge of the test leads to a raise only, and the factor-by-factor conditioning is reached through the other
            for lab in ("T", "F"):
                succ = [m for m, l2 in g.succ[t.id] if l2 == lab]
                if succ and all(g.nodes[m].kind == "raisestmt" for m in succ) and all(g.dominates(t, s_) or any(g.dominates(lp, s_) and g.dominates(lp, t)
                                                                                                              for lp in g.nodes if lp.kind == "iter") for s_ in stores):
                    ok = True
    chk.decide("C01-R1", f"{jd.qual}._condition/unknown-names", ok, rec, site(repo, cnd), "a keyword no factor accepts is refused before conditioning",
               "conditioning a joint distribution silently ignores a keyword that none of its factors accepts (a misspelt or unknown variable): after fixing "
               "all real variables the result evaluates to a number although an unknown variable was given", cnd)


def _emptiness_core(e):
    """(X, label of the edge on which X is NON-empty) for a test `0 < len(X)`, `len(X) != 0`, `len(X) == 0`, `X`, `not X`; else None"""
    lab = "T"
    while isinstance(e, ast.UnaryOp) and isinstance(e.op, ast.Not):
        e, lab = e.operand, ("F" if lab == "T" else "T")
    if isinstance(e, ast.Compare) and len(e.ops) == 1:
        l_, r_ = e.left, e.comparators[0]
        zero = lambda x: isinstance(x, ast.Constant) and x.value == 0
        ln = lambda x: isinstance(x, ast.Call) and call_name(x) == "len" and len(x.args) == 1
        op = type(e.ops[0])
        if zero(l_) and ln(r_) and op in (ast.Lt, ast.NotEq):
            return r_.args[0], lab
        if ln(l_) and zero(r_) and op in (ast.Gt, ast.NotEq):
            return l_.args[0], lab
        if (zero(l_) and ln(r_) or ln(l_) and zero(r_)) and op is ast.Eq:
            return (r_ if ln(r_) else l_).args[0], ("F" if lab == "T" else "T")
        return None
    if isinstance(e, (ast.ListComp, ast.SetComp, ast.GeneratorExp, ast.Name, ast.BinOp, ast.Call)):
        return e, lab
    return None


def _excluded(e, kw, cv):
    """what a collection of keyword names built from `kw` leaves out: {"cv"} (the conditioning variables) and/or {"main"} ('_main_parameter'); the
    collection is `kw` / `kw.keys()` filtered by comprehension conditions (possibly nested), or a set difference; empty set when not recognised"""
    if pn(e) in (kw, f"{kw}.keys()") or (isinstance(e, ast.Call) and call_name(e) in ("set", "list", "sorted") and len(e.args) == 1 and pn(e.args[0]) in (kw, f"{kw}.keys()")):
        return set()
    if isinstance(e, ast.Call) and call_name(e) in ("set", "list", "sorted") and len(e.args) == 1:
        return _excluded(e.args[0], kw, cv)
    if isinstance(e, (ast.ListComp, ast.SetComp, ast.GeneratorExp)) and len(e.generators) == 1 and isinstance(e.generators[0].target, ast.Name) \
            and isinstance(e.elt, ast.Name) and e.elt.id == e.generators[0].target.id:
        v = e.elt.id
        out = set(_excluded(e.generators[0].iter, kw, cv))
        conds = []
        for c in e.generators[0].ifs:
            conds += list(c.values) if isinstance(c, ast.BoolOp) and isinstance(c.op, ast.And) else [c]
        for c in conds:
            if isinstance(c, ast.Compare) and len(c.ops) == 1 and pn(c.left) == v:
                if isinstance(c.ops[0], ast.NotIn) and pn(c.comparators[0]) == cv:
                    out.add("cv")
                elif isinstance(c.ops[0], ast.NotEq) and isinstance(c.comparators[0], ast.Constant) and c.comparators[0].value == "_main_parameter":
                    out.add("main")
                else:
                    return set()          # another filter: not the plain leftovers
            else:
                return set()
        return out
    if isinstance(e, ast.BinOp) and isinstance(e.op, ast.Sub):
        out = set(_excluded(e.left, kw, cv))
        r = e.right
        if isinstance(r, ast.Call) and call_name(r) == "set" and len(r.args) == 1 and pn(r.args[0]) == cv:
            out.add("cv")
        elif isinstance(r, ast.Set) and len(r.elts) == 1 and isinstance(r.elts[0], ast.Constant) and r.elts[0].value == "_main_parameter":
            out.add("main")
        else:
            return set()
        return out
    return set()


def _leftover_edge(ex, t):
    """if test node t asks "are there keywords that were not used" (`0 < len(set(kwargs) - processed [- {'_main_parameter'}])` in any of its spellings, possibly
    through a local), the label of the edge on which there ARE leftovers; else None"""
    e = ex.expand(t.ast, t, stop=frozenset({"kwargs"}))
    lab = "T"
    while isinstance(e, ast.UnaryOp) and isinstance(e.op, ast.Not):
        e, lab = e.operand, ("F" if lab == "T" else "T")
    if isinstance(e, ast.Compare) and len(e.ops) == 1:
        l_, r_ = e.left, e.comparators[0]
        zero = lambda x: isinstance(x, ast.Constant) and x.value == 0
        ln = lambda x: isinstance(x, ast.Call) and call_name(x) == "len" and len(x.args) == 1
        op = type(e.ops[0])
        if zero(l_) and ln(r_) and op in (ast.Lt, ast.NotEq):
            e = r_.args[0]
        elif ln(l_) and zero(r_) and op in (ast.Gt, ast.NotEq):
            e = l_.args[0]
        elif (zero(l_) and ln(r_) or ln(l_) and zero(r_)) and op is ast.Eq:
            e = (r_ if ln(r_) else l_).args[0]
            lab = "F" if lab == "T" else "T"
        else:
            return None
    # e: set(kwargs[.keys()]) - <used> [- {'_main_parameter'}] ...
    subs = 0
    while isinstance(e, ast.BinOp) and isinstance(e.op, ast.Sub):
        e = e.left
        subs += 1
    if subs >= 1 and isinstance(e, ast.Call) and call_name(e) == "set" and len(e.args) == 1 and pn(e.args[0]) in ("kwargs", "kwargs.keys()"):
        return lab
    return None


def _r1_leftover(chk, repo, dist, cnd):
    """Distribution._condition: a keyword that was not used to fix a conditioning variable is either this distribution's own name (-> likelihood) or refused.
    Decided on the flow graph: (1) no value is returned before the function has asked whether keywords are left over; (2) from the edge on which some ARE
    left over, a return is reached only through the refusal loop (`for k in kwargs: if k not in mutable + conditioning + [name]: raise`)."""
    v, g = cfgv(repo, dist, cnd, 1)
    ex = Expander(v, g)
    tests = [(t, _leftover_edge(ex, t)) for t in g.tests()]
    tests = [(t, lab) for t, lab in tests if lab is not None]
    loops = []
    for n in g.nodes:
        if n.kind == "iter" and pn(ex.expand(n.ast.iter, n, stop=frozenset({"kwargs"}))) in ("kwargs", "kwargs.keys()") and isinstance(n.ast.target, ast.Name):
            k_ = n.ast.target.id
            body = n.ast.body
            if len(body) == 1 and isinstance(body[0], ast.If) and not body[0].orelse and body[0].body and isinstance(body[0].body[-1], ast.Raise):
                tt = body[0].test
                if isinstance(tt, ast.Compare) and len(tt.ops) == 1 and isinstance(tt.ops[0], ast.NotIn) and pn(tt.left) == k_ and "self.name" in pn(ex.expand(tt.comparators[0], n)):
                    loops.append(n)
    rets = g.returns()
    rec = bool(tests) and bool(loops) and bool(rets)
    bad = []
    if rec:
        early = g.reachable_from([g.entry.id], avoid_nodes={t.id for t, _ in tests} | {n.id for n in loops})
        for r in rets:
            if r.id in early:
                bad.append(f"`{unparse(r.ast)[:60]}` (line {getattr(r.ast, 'lineno', '?')}) is reached before the keywords that were not used have been looked at")
        starts = [m for t, lab in tests for m, l2 in g.succ[t.id] if l2 == lab]
        late = g.reachable_from(starts, avoid_nodes={n.id for n in loops})
        for r in rets:
            if r.id in late and r.id not in early:
                bad.append(f"`{unparse(r.ast)[:60]}` (line {getattr(r.ast, 'lineno', '?')}) is reached with unused keywords without passing the refusal of unknown names")
    chk.decide("C01-R1", f"{dist.qual}._condition/leftover-refused", rec and not bad, rec, site(repo, cnd),
               "every exit either has no unused keyword or passed the refusal of unknown names",
               "; ".join(bad) + ": conditioning with an unknown or doubly specified keyword (`d(s, x, x=other)`, `d(x=v, zzz=1)`) silently ignores it; when all "
               "variables are fixed that is an evaluation returning a number", cnd)


def _r2(chk, repo):
    dens = repo.cls("cuqi/density/_density.py:Density")
    f = repo.method(dens, "logd")[1]
    v, g = cfgv(repo, dens, f)
    rets = [pn(n.ast.value) for n in g.returns()]

    def plus_constant(e):
        # self._logd(<whatever arguments>) + self._constant, in either operand order
        if not (isinstance(e, ast.BinOp) and isinstance(e.op, ast.Add)):
            return False
        sides = [e.left, e.right]
        return any(path_of(a) == "self._constant" and isinstance(b_, ast.Call) and call_name(b_) == "self._logd" for a, b_ in (sides, sides[::-1]))
    ok = bool(rets) and all(n.ast.value is not None and plus_constant(n.ast.value) for n in g.returns())
    rec = any("self._logd(" in r for r in rets)
    chk.decide("C01-R2", f"{dens.qual}.logd/constant", ok, rec, site(repo, f), "_logd + folded constant",
               f"Density.logd returns {rets}: the folded constant of fixed variables is not added on every path", f)
    init = repo.method(dens, "__init__")[1]
    chk.add("C01-R2", f"{dens.qual}.__init__/constant", "self._constant=0" in views(repo, dens, init), site(repo, init), "constant starts at 0", "constant does not start at 0", init)
    jd = repo.cls(f"{JD}:JointDistribution")
    red = repo.method(jd, "_reduce_to_single_density")[1]
    allowed = {pn(x) for x in ("self", "MultipleLikelihoodPosterior(*self._densities)",
                               "self._add_constants_to_density(Posterior(self._likelihoods[0],self._distributions[0]))",
                               "self._add_constants_to_density(self._distributions[0])")}
    best = None
    for level in (1, 4, 3, 0):
        v, g = cfgv(repo, jd, red, level)
        problems = []
        for r in g.returns():
            val = r.ast.value
            if val is None or (isinstance(val, ast.Constant) and val.value is None):
                continue      # what falling off the end gives: branches are exhaustive over (n_dist, n_likelihood) by reading
            t = pn(val)
            if t in allowed:
                continue
            if t == "self._likelihoods[0]":
                continue      # no distribution left: unreachable from the public API (the constructor requires a prior for every likelihood parameter)
            problems.append(f"line {r.lineno}: returns `{unparse(val)}` without all factors / without folding the constants of the fixed variables")
        if best is None or len(problems) < len(best):
            best = problems
    chk.note("C01-R2 `return self._likelihoods[0]` / falling off the end of _reduce_to_single_density are tabled as unreachable from the public API")
    chk.add("C01-R2", f"{jd.qual}._reduce_to_single_density", not best, site(repo, red), "every reduction keeps all factors or folds the fixed ones' sum", "; ".join(best), red)
    add = repo.method(jd, "_add_constants_to_density")[1]
    d = func_params(add)[1]
    # the value stored in the reduced density's constant, with the class's private helpers inlined and temporaries replaced by their definitions:
    # <old constant> + sum(e.logd() for e in self._evaluated_densities)   (either operand order, list or generator, += or =)
    from .common import canon_fn
    from ..flow import Expander
    addv = canon_fn(repo, jd, add, 2)
    ex = Expander(addv)

    def is_sum(e):
        if not (isinstance(e, ast.Call) and call_name(e) == "sum" and len(e.args) == 1 and isinstance(e.args[0], (ast.ListComp, ast.GeneratorExp))):
            return False
        c = e.args[0]
        if len(c.generators) != 1 or c.generators[0].ifs or not isinstance(c.generators[0].target, ast.Name):
            return False
        k = c.generators[0].target.id
        return pn(c.generators[0].iter) == "self._evaluated_densities" and pn(c.elt) == f"{k}.logd()"
    upd, seen_store = False, False
    for n in ex.cfg.nodes:
        if n.kind != "stmt":
            continue
        if isinstance(n.ast, ast.Assign) and any(path_of(t) == f"{d}._constant" for t in n.ast.targets):
            seen_store = True
            e_ = ex.expand(n.ast.value, n, stop=frozenset({d}))
            if isinstance(e_, ast.BinOp) and isinstance(e_.op, ast.Add):
                a_, b_ = e_.left, e_.right
                upd = upd or (pn(a_) == f"{d}._constant" and is_sum(b_)) or (pn(b_) == f"{d}._constant" and is_sum(a_))
        elif isinstance(n.ast, ast.AugAssign) and path_of(n.ast.target) == f"{d}._constant" and isinstance(n.ast.op, ast.Add):
            seen_store = True
            upd = upd or is_sum(ex.expand(n.ast.value, n, stop=frozenset({d})))
    v, g = cfgv(repo, jd, add)
    rets = [pn(r.ast.value) for r in g.returns()]
    ok = upd and rets and all(r == d for r in rets)
    chk.decide("C01-R2", f"{jd.qual}._add_constants_to_density", ok, seen_store or not upd, site(repo, add), "adds the sum of all evaluated densities to the reduced density's constant",
               "the sum of the fixed variables' log-densities (sum of logd() over self._evaluated_densities) is not added to the reduced density's constant (or another object is returned)", add)
    ev = jd.props.get("_evaluated_densities")
    ok = ev is not None and "[_k0 for _k0 in self._densities if isinstance(_k0,EvaluatedDensity)]" in views(repo, jd, ev.getter)
    chk.add("C01-R2", f"{jd.qual}._evaluated_densities", ok, site(repo, ev.getter if ev else add), "exactly the EvaluatedDensity factors",
            "the folded constant is not the sum over all evaluated factors", ev.getter if ev else add)
    dist = repo.cls("cuqi/distribution/_distribution.py:Distribution")
    tl = repo.method(dist, "to_likelihood")[1]
    v, g = cfgv(repo, dist, tl)
    ev = [r for r in g.returns() if isinstance(r.ast.value, ast.Call) and call_name(r.ast.value) == "EvaluatedDensity"]
    d = func_params(tl)[1]
    rec = len(ev) == 1
    ok = rec and pn(ev[0].ast.value) == f"EvaluatedDensity(self.logd({d}),name=self.name)" and \
        (guarded(g, ev[0], "self.is_cond", "F") or guarded(g, ev[0], "not self.is_cond", "T"))
    chk.decide("C01-R2", f"{dist.qual}.to_likelihood", ok, rec, site(repo, tl), "fully fixed distribution -> EvaluatedDensity(self.logd(data)) (constant included), keeping the name",
               f"a fully conditioned distribution is turned into `{unparse(ev[0].ast.value) if ev else '?'}`: logpdf/_logd instead of logd drops the constant "
               f"already folded into a reduced density, so fixing the last variable in a separate call loses earlier contributions", tl)
    ok = any(pn(r.ast.value) == f"Likelihood(self,{d})" for r in g.returns())
    chk.add("C01-R2", f"{dist.qual}.to_likelihood/conditional", ok, site(repo, tl), "conditional distribution -> Likelihood(self, data)", "to_likelihood conditional branch changed", tl)
    lk = repo.cls("cuqi/likelihood/_likelihood.py:Likelihood")
    c = lk.props.get("_constant")
    ok = c is not None and "return self.distribution._constant" in views(repo, lk, c.getter)
    lg = repo.method(lk, "_logd")[1]
    ok = ok and "return self.distribution(*args,**kwargs).logd(self.data)" in views(repo, lk, lg)
    chk.add("C01-R2", f"{lk.qual}._logd", ok, site(repo, lg), "likelihood value = logd of the conditioned data distribution at the data",
            "likelihood evaluation changed", lg)
    post = repo.cls("cuqi/distribution/_posterior.py:Posterior")
    lp = repo.method(post, "logpdf")[1]
    V = views(repo, post, lp)
    ok = "return self.likelihood.logd(*args,**kwargs)+self.prior.logd(*args,**kwargs)" in V or "return self.prior.logd(*args,**kwargs)+self.likelihood.logd(*args,**kwargs)" in V
    chk.add("C01-R2", f"{post.qual}.logpdf", ok, site(repo, lp), "likelihood.logd + prior.logd", "posterior log-density is not the sum of its two components' logd", lp)
    dl = repo.method(dist, "_logd")[1]
    ok = "return self.logpdf(*args)" in views(repo, dist, dl)
    chk.add("C01-R2", f"{dist.qual}._logd", ok, site(repo, dl), "_logd = logpdf", "Distribution._logd is not logpdf", dl)


SELECT = "{_k0:_k1 for _k0,_k1 in kwargs.items() if _k0 in $d.get_parameter_names()}"


def _r3_r4(chk, repo):
    jd = repo.cls(f"{JD}:JointDistribution")
    f = repo.method(jd, "logd")[1]
    S = stmts(repo, jd, f)
    b, _ = unify(["$acc=0", "for: $d : self._densities", "$acc+=$d.logd(**" + SELECT + ")", "return $acc"], S)
    import re
    rec = any(re.match(r"^[A-Za-z_]\w*\+=[A-Za-z_]\w*\.logd\(", t) for t, _ in S)     # landmark: a loop accumulates factor.logd(...)
    if b is None:
        # the accumulation loop in its normal form (sa/canon.py: `acc = 0; for d in X: acc += e` is `acc = sum(e for d in X)`)
        SUM = pn("sum((_k0.logd(**{_k1:_k2 for _k1,_k2 in kwargs.items() if _k1 in _k0.get_parameter_names()}) for _k0 in self._densities))")
        if any(t == "return " + SUM for t, _ in S):
            b = {}
        else:
            b, _ = unify(["$acc=" + SUM, "return $acc"], S)
        rec = rec or any("for _k0 in self._densities" in t and ".logd(" in t for t, _ in S)
    chk.decide("C01-R3", f"{jd.qual}.logd/loop", b is not None, rec, site(repo, f), "sum over ALL factors of factor.logd(its own variables)",
               "joint log-density does not sum every factor evaluated at exactly its own variables", f)
    c = repo.method(jd, "_condition")[1]
    S = stmts(repo, jd, c)
    b, _ = unify(["for: ($i,$d) : enumerate($nj._densities)", "$nj._densities[$i]=$d(**" + SELECT + ")"], S)
    rec = any(t.startswith("for:") and "enumerate(" in t and "._densities)" in t for t, _ in S)
    if b is None:      # the new factor list built directly from conditioned copies
        formB = pn("[_k0(**{_k1:_k2 for _k1,_k2 in kwargs.items() if _k1 in _k0.get_parameter_names()}) for _k0 in self._densities]")
        if any(formB in t for t, _ in S):
            b = {}
        rec = rec or any("for _k0 in self._densities]" in t for t, _ in S)
    if b is None:      # ... or appended one by one in a loop over all factors (the factor's parameter names may be held in a temporary)
        for pats in (["for: $d : self._densities", "$lst.append($d(**" + SELECT + "))"],
                     ["for: $d : self._densities", "$pn=$d.get_parameter_names()", "$lst.append($d(**{_k0:_k1 for _k0,_k1 in kwargs.items() if _k0 in $pn}))"],
                     ["for: ($i,$d) : enumerate($nj._densities)", "$pn=$d.get_parameter_names()", "$nj._densities[$i]=$d(**{_k0:_k1 for _k0,_k1 in kwargs.items() if _k0 in $pn})"]):
            b, _ = unify(pats, S)
            if b is not None:
                break
        rec = rec or any(t.startswith("for:") and t.endswith(": self._densities") for t, _ in S)
    chk.decide("C01-R3", f"{jd.qual}._condition/selection", b is not None, rec, site(repo, c), "each factor is conditioned on exactly the given variables it depends on",
               "per-factor selection of conditioning variables changed", c)
    for name, attr in (("dim", "dim"), ("geometry", "geometry")):
        p = jd.props.get(name)
        ok = p is not None and f"return[_k0.{attr} for _k0 in self._distributions]" in views(repo, jd, p.getter)
        chk.add("C01-R4", f"{jd.qual}.@{name}", ok, site(repo, p.getter) if p else "", f"{name} enumerates self._distributions", f"{name} does not enumerate the distributions in order")
    gp = repo.method(jd, "get_parameter_names")[1]
    ok = "return[_k0.name for _k0 in self._distributions]" in views(repo, jd, gp)
    chk.add("C01-R4", f"{jd.qual}.get_parameter_names", ok, site(repo, gp), "names enumerate self._distributions in the same order as dim", "parameter names not in distribution order", gp)
    d = jd.props.get("_distributions")
    ok = d is not None and "[_k0 for _k0 in self._densities if isinstance(_k0,Distribution)]" in views(repo, jd, d.getter)
    chk.add("C01-R4", f"{jd.qual}.@_distributions", ok, site(repo, d.getter) if d else "", "the distributions among the factors, in factor order", "_distributions changed")
    st = repo.cls(f"{JD}:_StackedJointDistribution")
    f = repo.method(st, "logd")[1]
    x = func_params(f)[1]
    V = views(repo, st, f)
    ok = f"return super().logd(**dict(zip(self.get_parameter_names(),np.split({x},np.cumsum(super().dim)[:-1]))))" in V
    chk.add("C01-R4", f"{st.qual}.logd", ok, site(repo, f), "split by cumulative dims, zip with names in the same order",
            f"stacked evaluation is not super().logd(**dict(zip(names, np.split(x, cumsum(dims)[:-1]))))", f)
    dens = repo.cls("cuqi/density/_density.py:Density")
    f = repo.method(dens, "logd")[1]
    b = match(repo, dens, f, ["$pn=self.get_parameter_names()", "$a=[kwargs[_k0] for _k0 in $pn]"])
    chk.add("C01-R4", f"{dens.qual}.logd/order", b is not None, site(repo, f), "keyword values re-ordered by the parameter-name list", "keyword re-ordering changed", f)
