"""C01 — conditioning a joint distribution preserves the joint log-density (structural clauses).

 R1 refusal dominates evaluation: malformed evaluations (positional+keyword, wrong names, missing conditioning variables,
    doubly specified variables) are refused before anything is evaluated
 R2 constants are carried: every reduction returns the joint itself, a density constructed from ALL factors, or a density to
    which the sum of the evaluated (fixed) factors was added; the un-normalised log-density of every Density adds its folded
    constant; a fully conditioned distribution becomes an EvaluatedDensity of its logd (constant included)
 R3 factor enumeration: evaluation and conditioning loop over the complete factor list, selecting each factor's own variables
 R4 one table for names and sizes in the stacked view; keyword evaluation re-orders by the parameter-name list
 R5 conditioning replaces every factor by a conditioned copy before reducing (shared with C11-R3)
"""
from __future__ import annotations
import ast
from typing import List

from ..index import Repo, AnchorError
from ..cfg import CFG, path_of
from ..astutil import unparse, call_name, func_params, strip_docstring
from .common import site

JD = "cuqi/distribution/_joint_distribution.py"


def _norm(e) -> str:
    return unparse(e).replace(" ", "").replace("\n", "")


def _guarded_raise(g: CFG, consumer, test_txt: str, label: str) -> bool:
    """consumer requires `label` edge of test `test_txt`, whose other edge leads only to a raise"""
    for t, lab in g.guards_of(consumer):
        if _norm(t.ast) == test_txt and lab == label:
            other = "T" if label == "F" else "F"
            tgt = [m for m, l in g.succ[t.id] if l == other]
            reach = g.reachable_from(tgt)
            return g.exit.id not in reach or not any(m == consumer.id for m in reach)
    return False


def run(chk, repo: Repo):
    chk.rule("C01-R1", "validation guards dominate the evaluation / conditioning they protect", floor=9)
    chk.rule("C01-R2", "no folded constant and no factor is lost by reduction, evaluation or full conditioning", floor=8)
    chk.rule("C01-R3", "evaluation and conditioning enumerate the complete factor list with per-factor variable selection", floor=2)
    chk.rule("C01-R4", "stacked view: sizes and names from the same enumeration; keyword evaluation ordered by parameter names", floor=4)
    chk.rule("C01-R5", "conditioning replaces every factor by a conditioned copy, then reduces (C11-R3)", floor=3)
    _r1(chk, repo)
    _r2(chk, repo)
    _r3_r4(chk, repo)
    # R5 shared with C11-R3
    from . import c11
    before = len(chk.obligations)
    c11._r3(chk, repo)
    for o in chk.obligations[before:]:
        o.rule = "C01-R5"


def _r1(chk, repo):
    dens = repo.cls("cuqi/density/_density.py:Density")
    f = repo.method(dens, "logd")[1]
    g = CFG(f)
    ret = [n for n in g.returns() if "self._logd(*args)" in _norm(n.ast)]
    reord = [n for n in g.nodes if n.ast is not None and n.kind == "stmt" and _norm(n.ast) == "args=[kwargs[name]fornameinpar_names]"]
    if len(ret) != 1 or len(reord) != 1:
        raise AnchorError("Density.logd: evaluation / keyword re-ordering not found")
    chk.add("C01-R1", f"{dens.qual}.logd/positional+keyword", _guarded_raise(g, reord[0], "len(args)>0", "F"), site(repo, f),
            "positional and keyword arguments together are refused", "positional and keyword arguments can be mixed in an evaluation", f)
    chk.add("C01-R1", f"{dens.qual}.logd/names", _guarded_raise(g, reord[0], "set(par_names)!=set(kwargs.keys())", "F"), site(repo, f),
            "keyword names must equal the parameter names", "an evaluation with missing or unknown keyword names is not refused", f)
    jd = repo.cls(f"{JD}:JointDistribution")
    f = repo.method(jd, "logd")[1]
    g = CFG(f)
    loops = [n for n in g.nodes if n.kind == "iter"]
    if len(loops) != 1:
        raise AnchorError("JointDistribution.logd: accumulation loop not found")
    chk.add("C01-R1", f"{jd.qual}.logd/names", _guarded_raise(g, loops[0], "set(self.get_parameter_names())!=set(kwargs.keys())", "F"), site(repo, f),
            "all and only the joint's parameters must be given", "joint evaluation with missing/unknown variables is not refused", f)
    pk = [n for n in g.nodes if n.ast is not None and _norm(n.ast) == "kwargs=self._parse_args_add_to_kwargs(*args,**kwargs)"]
    chk.add("C01-R1", f"{jd.qual}.logd/parse", len(pk) == 1 and g.dominates(pk[0], loops[0]), site(repo, f), "positional arguments merged (with duplicate check) first",
            "positional arguments are not merged through _parse_args_add_to_kwargs before evaluation", f)
    for ci, fname in ((jd, "_parse_args_add_to_kwargs"), (repo.cls("cuqi/distribution/_distribution.py:Distribution"), "_parse_args_add_to_kwargs")):
        f = repo.method(ci, fname)[1]
        g = CFG(f)
        st = [n for n in g.nodes if isinstance(n.ast, ast.Assign) and isinstance(n.ast.targets[0], ast.Subscript) and path_of(n.ast.targets[0].value) == "kwargs"]
        ok = len(st) == 1 and _guarded_raise(g, st[0], "ordered_keys[index]inkwargs", "F")
        chk.add("C01-R1", f"{ci.qual}.{fname}/double", ok, site(repo, f), "a variable given positionally and by keyword is refused",
                "a variable can be passed both positionally and by keyword", f)
    dist = repo.cls("cuqi/distribution/_distribution.py:Distribution")
    f = repo.method(dist, "_parse_args_add_to_kwargs")[1]
    g = CFG(f)
    st = [n for n in g.nodes if isinstance(n.ast, ast.Assign) and isinstance(n.ast.targets[0], ast.Subscript) and path_of(n.ast.targets[0].value) == "kwargs"]
    ok = bool(st) and _guarded_raise(g, st[0], "len(args)>len(cond_vars)+1", "F")
    chk.add("C01-R1", f"{dist.qual}._parse_args_add_to_kwargs/arity", ok, site(repo, f), "too many positional values are refused", "too many positional values are accepted", f)
    f = repo.method(dist, "logd")[1]
    g = CFG(f)
    cond = [n for n in g.nodes if n.ast is not None and n.kind == "stmt" and _norm(n.ast) == "new_dist=self(**cond_kwargs)"]
    if len(cond) != 1:
        raise AnchorError("Distribution.logd: conditioning step not found")
    chk.add("C01-R1", f"{dist.qual}.logd/enough", _guarded_raise(g, cond[0], "not_enough_args", "F"), site(repo, f), "too few values refused", "too few values are not refused", f)
    chk.add("C01-R1", f"{dist.qual}.logd/all-cond-vars", _guarded_raise(g, cond[0], "all_cond_vars_specified", "T"), site(repo, f),
            "every conditioning variable must be given", "an evaluation with a missing conditioning variable is not refused", f)
    t = _norm(f)
    ok = "not_enough_args=len(kwargs)<len(cond_vars)+1" in t and "all_cond_vars_specified=all([keyinkwargsforkeyincond_vars])" in t and "cond_kwargs={key:kwargs[key]forkeyincond_vars}" in t
    chk.add("C01-R1", f"{dist.qual}.logd/predicates", ok, site(repo, f), "predicates count main parameter + conditioning variables", "validation predicates changed", f)
    # conditional distributions are evaluated only after conditioning (never on self)
    direct = [n for n in g.returns() if "super().logd(" in _norm(n.ast)]
    ok = len(direct) == 1 and any(_norm(t.ast) == "len(cond_vars)>0" and lab == "F" for t, lab in g.guards_of(direct[0]))
    chk.add("C01-R1", f"{dist.qual}.logd/conditional-first", ok, site(repo, f), "a conditional distribution is evaluated only through its conditioned copy",
            "a distribution with open conditioning variables can be evaluated directly", f)
    cnd = repo.method(dist, "_condition")[1]
    t = _norm(cnd)
    ok = "ifkw_keyinmutable_varsandkw_keynotincond_vars:raiseValueError" in t and "ifkw_keynotinmutable_vars+cond_vars+[self.name]:raiseValueError" in t
    chk.add("C01-R1", f"{dist.qual}._condition/unknown-keywords", ok, site(repo, cnd), "unknown keywords and fixed mutable variables are refused",
            "conditioning accepts unknown keywords", cnd)


def _r2(chk, repo):
    dens = repo.cls("cuqi/density/_density.py:Density")
    f = repo.method(dens, "logd")[1]
    rets = [_norm(n.value) for n in ast.walk(f) if isinstance(n, ast.Return)]
    chk.add("C01-R2", f"{dens.qual}.logd/constant", rets == ["self._logd(*args)+self._constant"], site(repo, f), "_logd + folded constant",
            f"Density.logd returns {rets}: the folded constant of fixed variables is not added", f)
    init = repo.method(dens, "__init__")[1]
    chk.add("C01-R2", f"{dens.qual}.__init__/constant", "self._constant=0" in _norm(init), site(repo, init), "constant starts at 0", "constant does not start at 0", init)
    jd = repo.cls(f"{JD}:JointDistribution")
    red = repo.method(jd, "_reduce_to_single_density")[1]
    g = CFG(red)
    problems = []
    allowed = {"self", "MultipleLikelihoodPosterior(*self._densities)", "self._add_constants_to_density(Posterior(self._likelihoods[0],self._distributions[0]))",
               "self._add_constants_to_density(self._distributions[0])"}
    for r in g.returns():
        v = _norm(r.ast.value)
        if v in allowed:
            continue
        if v == "self._likelihoods[0]":
            gs = {(_norm(t.ast), lab) for t, lab in g.guards_of(r)}
            if ("n_likelihood==1", "T") in gs and ("n_dist==0", "T") in gs:
                chk.note("C01-R2 `return self._likelihoods[0]` (no distribution left): unreachable from the public API — the constructor requires a prior for "
                         "every likelihood parameter, and fixing all priors turns the likelihood into an evaluated density — tabled")
                continue
        problems.append(f"line {r.lineno}: returns `{unparse(r.ast.value)}` without all factors / without folding the constants of the fixed variables")
    if g.falls_off_end:
        chk.note("C01-R2 _reduce_to_single_density has a fall-through path (no branch matches): branches are exhaustive over (n_dist, n_likelihood) by reading")
    chk.add("C01-R2", f"{jd.qual}._reduce_to_single_density", not problems, site(repo, red), "every reduction keeps all factors or folds the fixed ones' sum", "; ".join(problems), red)
    add = repo.method(jd, "_add_constants_to_density")[1]
    t = _norm(add)
    ok = ("density._constant=density._constant+self._sum_evaluated_densities()" in t or "density._constant+=self._sum_evaluated_densities()" in t) and "returndensity" in t \
        and "ifisinstance(density,EvaluatedDensity):raiseValueError" in t
    chk.add("C01-R2", f"{jd.qual}._add_constants_to_density", ok, site(repo, add), "adds the sum of all evaluated densities to the reduced density's constant",
            "the sum of the fixed variables' log-densities is not added to the reduced density", add)
    se = repo.method(jd, "_sum_evaluated_densities")[1]
    rets = [_norm(n.value) for n in ast.walk(se) if isinstance(n, ast.Return)]
    ok = rets == ["sum([density.logd()fordensityinself._evaluated_densities])"]
    ev = jd.props.get("_evaluated_densities")
    ok = ok and ev is not None and "[eval_densforeval_densinself._densitiesifisinstance(eval_dens,EvaluatedDensity)]" in _norm(ev.getter)
    chk.add("C01-R2", f"{jd.qual}._sum_evaluated_densities", ok, site(repo, se), "sum of logd() over exactly the EvaluatedDensity factors",
            "the folded constant is not the sum over all evaluated factors", se)
    dist = repo.cls("cuqi/distribution/_distribution.py:Distribution")
    tl = repo.method(dist, "to_likelihood")[1]
    g = CFG(tl)
    ev = [r for r in g.returns() if isinstance(r.ast.value, ast.Call) and call_name(r.ast.value) == "EvaluatedDensity"]
    d = func_params(tl)[1]
    ok = len(ev) == 1 and _norm(ev[0].ast.value) == f"EvaluatedDensity(self.logd({d}),name=self.name)" and \
        any(_norm(t.ast) == "self.is_cond" and lab == "F" for t, lab in g.guards_of(ev[0]))
    chk.add("C01-R2", f"{dist.qual}.to_likelihood", ok, site(repo, tl), "fully fixed distribution -> EvaluatedDensity(self.logd(data)) (constant included), keeping the name",
            f"a fully conditioned distribution is turned into `{unparse(ev[0].ast.value) if ev else '?'}`: logpdf/_logd instead of logd drops the constant "
            f"already folded into a reduced density, so fixing the last variable in a separate call loses earlier contributions", tl)
    ok = any(_norm(r.ast.value) == f"Likelihood(self,{d})" for r in g.returns())
    chk.add("C01-R2", f"{dist.qual}.to_likelihood/conditional", ok, site(repo, tl), "conditional distribution -> Likelihood(self, data)", "to_likelihood conditional branch changed", tl)
    lk = repo.cls("cuqi/likelihood/_likelihood.py:Likelihood")
    c = lk.props.get("_constant")
    ok = c is not None and [_norm(s) for s in c.getter.body] == ["returnself.distribution._constant"]
    lg = repo.method(lk, "_logd")[1]
    ok = ok and any(_norm(n.value) == "self.distribution(*args,**kwargs).logd(self.data)" for n in ast.walk(lg) if isinstance(n, ast.Return))
    chk.add("C01-R2", f"{lk.qual}._logd", ok, site(repo, lg), "likelihood value = logd of the conditioned data distribution at the data",
            "likelihood evaluation changed", lg)
    post = repo.cls("cuqi/distribution/_posterior.py:Posterior")
    lp = repo.method(post, "logpdf")[1]
    ok = any(_norm(n.value) == "self.likelihood.logd(*args,**kwargs)+self.prior.logd(*args,**kwargs)" for n in ast.walk(lp) if isinstance(n, ast.Return))
    chk.add("C01-R2", f"{post.qual}.logpdf", ok, site(repo, lp), "likelihood.logd + prior.logd", "posterior log-density is not the sum of its two components' logd", lp)
    dl = repo.method(dist, "_logd")[1]
    ok = any(_norm(n.value) == "self.logpdf(*args)" for n in ast.walk(dl) if isinstance(n, ast.Return))
    chk.add("C01-R2", f"{dist.qual}._logd", ok, site(repo, dl), "_logd = logpdf", "Distribution._logd is not logpdf", dl)


def _r3_r4(chk, repo):
    jd = repo.cls(f"{JD}:JointDistribution")
    f = repo.method(jd, "logd")[1]
    t = _norm(f)
    ok = "logd=0fordensityinself._densities:logd_kwargs={key:valuefor(key,value)inkwargs.items()ifkeyindensity.get_parameter_names()}logd+=density.logd(**logd_kwargs)returnlogd" in t.replace("forkey,valuein", "for(key,value)in")
    chk.add("C01-R3", f"{jd.qual}.logd/loop", ok, site(repo, f), "sum over ALL factors of factor.logd(its own variables)",
            "joint log-density does not sum every factor evaluated at exactly its own variables", f)
    c = repo.method(jd, "_condition")[1]
    t = _norm(c).replace("forkey,valuein", "for(key,value)in")
    ok = "cond_kwargs={key:valuefor(key,value)inkwargs.items()ifkeyindensity.get_parameter_names()}" in t
    chk.add("C01-R3", f"{jd.qual}._condition/selection", ok, site(repo, c), "each factor is conditioned on exactly the given variables it depends on",
            "per-factor selection of conditioning variables changed", c)
    for name, want in (("dim", "[dist.dimfordistinself._distributions]"), ("geometry", "[dist.geometryfordistinself._distributions]")):
        p = jd.props.get(name)
        ok = p is not None and any(_norm(n.value) == want for n in ast.walk(p.getter) if isinstance(n, ast.Return))
        chk.add("C01-R4", f"{jd.qual}.@{name}", ok, site(repo, p.getter) if p else "", f"{name} enumerates self._distributions", f"{name} does not enumerate the distributions in order")
    gp = repo.method(jd, "get_parameter_names")[1]
    ok = any(_norm(n.value) == "[dist.namefordistinself._distributions]" for n in ast.walk(gp) if isinstance(n, ast.Return))
    chk.add("C01-R4", f"{jd.qual}.get_parameter_names", ok, site(repo, gp), "names enumerate self._distributions in the same order as dim", "parameter names not in distribution order", gp)
    d = jd.props.get("_distributions")
    ok = d is not None and "[distfordistinself._densitiesifisinstance(dist,Distribution)]" in _norm(d.getter)
    chk.add("C01-R4", f"{jd.qual}.@_distributions", ok, site(repo, d.getter) if d else "", "the distributions among the factors, in factor order", "_distributions changed")
    st = repo.cls(f"{JD}:_StackedJointDistribution")
    f = repo.method(st, "logd")[1]
    body = [_norm(s) for s in strip_docstring(f.body)]
    x = func_params(f)[1]
    want = ["split_indices=np.cumsum(super().dim)", f"inputs=np.split({x},split_indices[:-1])", "names=self.get_parameter_names()", "kwargs=dict(zip(names,inputs))", "returnsuper().logd(**kwargs)"]
    chk.add("C01-R4", f"{st.qual}.logd", body == want, site(repo, f), "split by cumulative dims, zip with names in the same order",
            f"stacked evaluation is {body}", f)
    dens = repo.cls("cuqi/density/_density.py:Density")
    f = repo.method(dens, "logd")[1]
    ok = "par_names=self.get_parameter_names()" in _norm(f) and "args=[kwargs[name]fornameinpar_names]" in _norm(f)
    chk.add("C01-R4", f"{dens.qual}.logd/order", ok, site(repo, f), "keyword values re-ordered by the parameter-name list", "keyword re-ordering changed", f)
