"""C02 — Metropolis-type kernels accept with exactly the MH probability.

Decided per kernel (experimental MH/CWMH/PCN/MALA, legacy MH/CWMH/pCN/MALA):
 R1 the accept region is control dependent on "proposed log-density is neither NaN nor infinite"
 R2 in the accept region the point and its cached evaluations are installed together, from the same proposal;
    outside it they keep the incoming values
 R3 the compared quantity is log(U) <= min(0, E), E = + logd(proposal) - cached current [+ log q(x|x*) - log q(x*|x)]
 R4 kernels without a proposal correction refuse non-symmetric proposal distributions at configuration time
 R5 pCN proposal sqrt(1-s^2) x + s xi, xi ~ prior, likelihood-only ratio; MALA drift/variance agree with log_proposal
 R6 every function containing a `min(0, .)` acceptance expression is one of the analysed kernels
"""
from __future__ import annotations
import ast
from fractions import Fraction
from typing import Dict, List, Optional, Set, Tuple

from ..index import Repo, ClassInfo, AnchorError
from ..cfg import CFG, Node, path_of
from ..flow import Expander, signed_terms, monomial, split_coefficient, NotMonomial
from ..astutil import unparse, call_name, func_params, same_expr, walk_no_nested
from .common import site

KERNELS = [
    # (module, class, method, family, interface)
    ("cuqi/experimental/mcmc/_mh.py", "MH", "step", "mh", "exp"),
    ("cuqi/experimental/mcmc/_cwmh.py", "CWMH", "step", "cwmh", "exp"),
    ("cuqi/experimental/mcmc/_pcn.py", "PCN", "step", "pcn", "exp"),
    ("cuqi/experimental/mcmc/_langevin_algorithm.py", "MALA", "_accept_or_reject", "mala", "exp"),
    ("cuqi/sampler/_mh.py", "MH", "single_update", "mh", "leg"),
    ("cuqi/sampler/_cwmh.py", "CWMH", "single_update", "cwmh", "leg"),
    ("cuqi/sampler/_pcn.py", "pCN", "single_update", "pcn", "leg"),
    ("cuqi/sampler/_langevin_algorithm.py", "MALA", "single_update", "mala", "leg"),
]
UNIFORM_DRAWS = ("np.random.rand()", "cuqi.distribution.Uniform(low=0, high=1).sample(rng=self.rng)")
LOGD_CALLS = ("logd", "_loglikelihood")


def _is_logd_call(e) -> Optional[ast.expr]:
    if isinstance(e, ast.Call) and isinstance(e.func, ast.Attribute) and e.func.attr in LOGD_CALLS and len(e.args) == 1:
        return e.args[0]
    return None


def _is_gradient_call(e) -> Optional[ast.expr]:
    if isinstance(e, ast.Call) and isinstance(e.func, ast.Attribute) and e.func.attr == "gradient" and len(e.args) == 1:
        return e.args[0]
    return None


def _finite_guard(test_ast: ast.expr, label: str) -> Optional[Tuple[str, ast.expr]]:
    """('nan'|'inf'|'finite', subject) if taking `label` out of this test establishes that subject is not NaN / not inf."""
    t = test_ast
    while isinstance(t, ast.UnaryOp) and isinstance(t.op, ast.Not):
        t = t.operand
        label = "T" if label == "F" else "F"
    if isinstance(t, ast.Call) and call_name(t) in ("np.isnan", "math.isnan", "numpy.isnan") and label == "F":
        return "nan", t.args[0]
    if isinstance(t, ast.Call) and call_name(t) in ("np.isinf", "math.isinf", "numpy.isinf") and label == "F":
        return "inf", t.args[0]
    if isinstance(t, ast.Call) and call_name(t) in ("np.isfinite", "math.isfinite") and label == "T":
        return "finite", t.args[0]
    if isinstance(t, ast.Compare) and len(t.ops) == 1 and isinstance(t.left, ast.Call):
        cn = call_name(t.left)
        rhs = t.comparators[0]
        if isinstance(rhs, ast.Constant) and isinstance(rhs.value, bool):
            want_false = (isinstance(t.ops[0], (ast.Eq, ast.Is)) and rhs.value is False) or \
                         (isinstance(t.ops[0], (ast.NotEq, ast.IsNot)) and rhs.value is True)
            want_true = (isinstance(t.ops[0], (ast.Eq, ast.Is)) and rhs.value is True) or \
                        (isinstance(t.ops[0], (ast.NotEq, ast.IsNot)) and rhs.value is False)
            if cn in ("np.isnan",) and ((want_false and label == "T") or (want_true and label == "F")):
                return "nan", t.left.args[0]
            if cn in ("np.isinf",) and ((want_false and label == "T") or (want_true and label == "F")):
                return "inf", t.left.args[0]
            if cn in ("np.isfinite",) and ((want_true and label == "T") or (want_false and label == "F")):
                return "finite", t.left.args[0]
    return None


class Kernel:
    def __init__(self, repo: Repo, mod, cls, meth, family, iface):
        self.repo, self.family, self.iface = repo, family, iface
        self.ci = repo.cls(f"{mod}:{cls}")
        from .common import canon_fn
        self.src_fn = repo.method(self.ci, meth)[1]
        # analysed on the structural normal form with private helpers inlined (sa/canon.py); temporaries are followed by def-use expansion
        from .common import canon_keep
        self.fn = canon_keep(repo, self.ci, self.src_fn, keep={"_log_proposal", "log_proposal", "_loglikelihood", "loglikelihood", "_accept_or_reject"},
                             subst="bool")
        self.label = f"{mod}:{cls}.{meth}"
        self.ex = Expander(self.fn)
        self.g = self.ex.cfg
        self.mh_test: Optional[Node] = None
        self.E: Optional[ast.expr] = None
        self._find_mh_test()

    def _find_mh_test(self):
        cands = []
        for t in self.g.tests():
            core, label = t.ast, "T"
            while isinstance(core, ast.UnaryOp) and isinstance(core.op, ast.Not):     # `if not (log_u <= alpha): reject`
                core, label = core.operand, ("F" if label == "T" else "T")
            if not isinstance(core, ast.Compare) or len(core.ops) != 1:
                continue
            e = self.ex.expand(core, t)
            if not isinstance(e, ast.Compare):
                continue
            lhs, rhs = e.left, e.comparators[0]
            if isinstance(rhs, ast.Call) and call_name(rhs) == "min" and len(rhs.args) == 2:
                cands.append((t, e, lhs, rhs))
                self.mh_label = label
                self.mh_cmp = core
        if len(cands) != 1:
            raise AnchorError(f"{self.label}: expected exactly one test `log(u) <= min(0, E)`, found {len(cands)}")
        self.mh_test, self.mh_expanded, self.lhs, self.rhs = cands[0]
        zero, E = self.rhs.args
        if not (isinstance(zero, ast.Constant) and zero.value == 0):
            zero, E = E, zero
        self.min_zero = zero
        self.E = E

    def accept_nodes(self) -> List[Node]:
        return [n for n in self.g.nodes if n.ast is not None and n.kind in ("stmt", "return")
                and self.g.requires_edge(n, self.mh_test, self.mh_label)]


def run(chk, repo: Repo):
    chk.rule("C02-R1", "the statements that install the proposal are control dependent on not-NaN and not-infinite of the proposed log-density used in the ratio", floor=8)
    chk.rule("C02-R2", "accept region installs point and cached evaluation(s) together from the same proposal; elsewhere the incoming values are kept", floor=8)
    chk.rule("C02-R3", "acceptance test is log(U) <= min(0, E) with one uniform draw and E = +logd(proposal) - cached current logd (+ proposal correction for MALA, gradients at the conditioning points)", floor=8)
    chk.rule("C02-R4", "MH/CWMH (no proposal correction) refuse non-symmetric proposal distributions when the proposal is configured (a refused proposal does not stay installed: validate before the store, or roll the store back)", floor=4)
    chk.rule("C02-R5", "pCN proposal is sqrt(1-s**2)*x + s*xi with xi from the prior and a likelihood-only ratio; MALA proposal drift/variance agree with log_proposal", floor=4)
    chk.rule("C02-R6", "no unanalysed function in the sampler packages contains a Metropolis acceptance expression min(0, .)", floor=1)
    chk.rule("C02-R7", "every write of a cached evaluation (current_*_logd / current_*_grad) is the evaluation at the current point or is paired "
                       "with the adoption of the point it was evaluated at (the ratio's denominator belongs to the current state), and is filled by the evaluation it memoises; a function outside the kernels that stores "
                       "current_point recomputes the caches or restores them together; legacy chain drivers fill the initial cached value with the function single_update compares", floor=14)
    from ..cachepoint import cache_point_rule
    cache_point_rule(chk, repo, "C02-R7", repo.classes_in("cuqi/experimental/mcmc/"))
    _r7_legacy_initial_cache(chk, repo)
    from ..cachepoint import point_writers_rule
    from .common import concrete_experimental_samplers as _ces
    point_writers_rule(chk, repo, "C02-R7", _ces(repo))

    kernels = [Kernel(repo, *k) for k in KERNELS]
    known_fns = {id(k.src_fn) for k in kernels}
    # R6: discovery cross-check
    extra = []
    for m in repo.modules.values():
        if not (m.rel.startswith("cuqi/sampler/") or m.rel.startswith("cuqi/experimental/mcmc/")):
            continue
        for n in ast.walk(m.tree):
            if isinstance(n, (ast.FunctionDef,)) and id(n) not in known_fns:
                for c in walk_no_nested(n):
                    if isinstance(c, ast.Call) and call_name(c) == "min" and len(c.args) == 2 and \
                            any(isinstance(a, ast.Constant) and a.value == 0 for a in c.args):
                        extra.append((m, n, c))
    chk.add("C02-R6", "cuqi/sampler + cuqi/experimental/mcmc", not extra, "",
            f"{len(kernels)} kernels analysed; no other function contains min(0, .)",
            "unanalysed Metropolis acceptance expression in " + ", ".join(f"{m.rel}:{n.name}" for m, n, _ in extra))

    for k in kernels:
        _r3(chk, repo, k)
        _r1(chk, repo, k)
        _r2(chk, repo, k)
    _r4(chk, repo)
    _r5(chk, repo, kernels)


# ------------------------------------------------------------------------------------------------ R3
def _classify_terms(k: Kernel):
    terms = signed_terms(k.E)
    plus_logd, minus_cur, plus_q, minus_q, other = [], [], [], [], []
    for sgn, t in terms:
        if _is_logd_call(t) is not None:
            (plus_logd if sgn > 0 else other).append((sgn, t))
        elif isinstance(t, ast.Call) and (call_name(t) or "").split(".")[-1] in ("_log_proposal", "log_proposal"):
            (plus_q if sgn > 0 else minus_q).append(t)
        elif isinstance(t, ast.Name) and sgn > 0 and k.iface == "exp" and k.family == "mala" \
                and t.id in func_params(k.fn)[2:3]:
            # the proposed log-density arrives as a parameter; the call site in step() is checked by _mala_callsite
            plus_logd.append((sgn, t))
        elif isinstance(t, (ast.Name, ast.Attribute)) and path_of(t):
            (minus_cur if sgn < 0 else other).append((sgn, t))
        else:
            other.append((sgn, t))
    return plus_logd, minus_cur, plus_q, minus_q, other


def _current_point_expr(k: Kernel) -> str:
    return "self.current_point" if k.iface == "exp" else func_params(k.fn)[1]


def _r3(chk, repo, k: Kernel):
    problems = []
    cmp = k.mh_cmp
    if not isinstance(cmp.ops[0], (ast.LtE, ast.Lt)):
        problems.append(f"comparison operator {type(cmp.ops[0]).__name__} is not <=")
    lhs_txt = unparse(k.lhs)
    if not (isinstance(k.lhs, ast.Call) and call_name(k.lhs) == "np.log" and unparse(k.lhs.args[0]) in UNIFORM_DRAWS):
        problems.append(f"left-hand side `{lhs_txt}` is not the log of a single uniform draw")
    if not (isinstance(k.min_zero, ast.Constant) and k.min_zero.value == 0):
        problems.append("acceptance exponent is not min(0, E)")
    plus_logd, minus_cur, plus_q, minus_q, other = _classify_terms(k)
    if len(plus_logd) != 1:
        problems.append(f"E has {len(plus_logd)} positive proposed-log-density terms (expected 1): {unparse(k.E)}")
    if len(minus_cur) != 1:
        problems.append(f"E has {len(minus_cur)} negative cached-current terms (expected 1): {unparse(k.E)}")
    if other:
        problems.append("unexpected terms in E: " + ", ".join(("+" if s > 0 else "-") + unparse(t) for s, t in other))
    k.P = _is_logd_call(plus_logd[0][1]) if len(plus_logd) == 1 else None
    k.L = plus_logd[0][1] if len(plus_logd) == 1 else None
    if k.L is not None and k.P is None and isinstance(k.L, ast.Name):
        k.P = ast.Name(id=func_params(k.fn)[1], ctx=ast.Load())   # exp MALA: (x_star, target_eval_star, target_grad_star)
    k.cur = minus_cur[0][1] if len(minus_cur) == 1 else None
    # the cached current value: experimental -> a state attribute current_*logd ; legacy -> the 2nd positional parameter
    if k.cur is not None:
        cp = path_of(k.cur)
        if k.iface == "exp" and k.family != "cwmh":
            keys = repo.fold_keys(k.ci, "_STATE_KEYS")
            if not (cp.startswith("self.") and cp[5:] in keys and cp.endswith("logd")):
                problems.append(f"subtracted term {cp} is not the cached log-density state key")
        elif k.iface == "leg" and k.family != "cwmh":
            if cp != func_params(k.fn)[2]:
                problems.append(f"subtracted term {cp} is not the incoming cached log-density parameter {func_params(k.fn)[2]}")
        else:
            # CWMH: running local, whose definitions are the cached/incoming value and accepted proposals' log-densities
            defs = k.ex.defs(k.mh_test, cp)
            init_ok = False
            for dn, rhs in defs:
                if k.iface == "leg" and dn.kind == "entry" and cp == func_params(k.fn)[2]:
                    init_ok = True
                elif rhs is not None and path_of(rhs) == "self.current_target_logd":
                    init_ok = True
            if not init_ok:
                problems.append(f"running log-density {cp} is not initialised from the cached/incoming current log-density")
    if k.family == "mala":
        if len(plus_q) != 1 or len(minus_q) != 1:
            problems.append(f"MALA correction needs exactly +log q(x|x*) - log q(x*|x); found +{len(plus_q)} / -{len(minus_q)}")
        else:
            cur = _current_point_expr(k)
            pq, mq = plus_q[0], minus_q[0]
            Ptxt = unparse(k.P) if k.P is not None else "?"
            a = [unparse(x) for x in pq.args]
            b = [unparse(x) for x in mq.args]
            gstar, gcur = _mala_gradients(k)
            if not (len(a) == 3 and a[0] == cur and a[1] == Ptxt and a[2] == gstar):
                problems.append(f"+log_proposal args {a} are not (current, proposal, gradient at proposal) = ({cur}, {Ptxt}, {gstar})")
            if not (len(b) == 3 and b[0] == Ptxt and b[1] == cur and b[2] == gcur):
                problems.append(f"-log_proposal args {b} are not (proposal, current, gradient at current) = ({Ptxt}, {cur}, {gcur})")
    else:
        if plus_q or minus_q:
            problems.append("proposal-density terms in a kernel that is assumed symmetric")
    chk.add("C02-R3", k.label, not problems, site(repo, k.mh_test.ast),
            f"log(U) <= min(0, {unparse(k.E)})", "; ".join(problems), k.mh_expanded)


def _mala_gradients(k: Kernel) -> Tuple[str, str]:
    """(expression text of gradient at the proposal, at the current point) as they appear in the kernel."""
    if k.iface == "exp":
        return func_params(k.fn)[3], "self.current_target_grad"
    # legacy: g_logpi_star = self.target.gradient(x_star) local ; current gradient is the 3rd parameter
    gstar = None
    for n in k.g.nodes:
        if isinstance(n.ast, ast.Assign):
            for tname in [path_of(t) for tgt in n.ast.targets for t in (tgt.elts if isinstance(tgt, ast.Tuple) else [tgt])]:
                if tname:
                    e = k.ex.expand(ast.Name(id=tname, ctx=ast.Load()), k.mh_test)
                    if _is_gradient_call(e) is not None and k.P is not None and unparse(_is_gradient_call(e)) == unparse(k.P):
                        gstar = unparse(e)
    return gstar or "?", func_params(k.fn)[3]


# ------------------------------------------------------------------------------------------------ R1
def _atoms(k: Kernel, t: Node, lab: str):
    """the atomic facts established by leaving test `t` through edge `lab`: a named boolean is expanded to its definition;
    (a or b) false -> a false and b false; (a and b) true -> a true and b true; not a -> a with the label flipped"""
    def rec(e, lab, depth=0):
        if isinstance(e, ast.UnaryOp) and isinstance(e.op, ast.Not):
            yield from rec(e.operand, "T" if lab == "F" else "F", depth)
        elif isinstance(e, ast.BoolOp) and ((isinstance(e.op, ast.Or) and lab == "F") or (isinstance(e.op, ast.And) and lab == "T")):
            for v in e.values:
                yield from rec(v, lab, depth)
        elif isinstance(e, ast.Name) and depth < 3:
            x = k.ex.expand(e, t)
            if isinstance(x, ast.Name):
                yield e, lab
            else:
                yield from rec(x, lab, depth + 1)
        else:
            yield e, lab
    yield from rec(t.ast, lab)


def _r1(chk, repo, k: Kernel):
    acc = k.accept_nodes()
    if not acc:
        raise AnchorError(f"{k.label}: empty accept region")
    Ltxt = unparse(k.L) if k.L is not None else None
    missing = []
    for n in acc:
        have = set()
        for t, lab in k.g.guards_of(n):
            for atom, alab in _atoms(k, t, lab):
                fg = _finite_guard(atom, alab)
                if fg is None:
                    continue
                kind, subj = fg
                subj_x = unparse(k.ex.expand(subj, t))
                if Ltxt is not None and subj_x == Ltxt:
                    have.add(kind)
        if not ("finite" in have or {"nan", "inf"} <= have):
            # an earlier raise on the same predicate is an accepted guard form
            missing.append((n, sorted(have)))
    if missing:
        n, have = missing[0]
        need = "NaN and infinity" if not have else ("infinity" if "nan" in have else "NaN")
        chk.fail("C02-R1", k.label, site(repo, n.ast),
                 f"the accept branch is not guarded against {need} of the proposed log-density `{Ltxt}` "
                 f"(min(0, nan) == 0 in Python, so an unguarded test accepts every NaN proposal)", n.ast)
    else:
        chk.ok("C02-R1", k.label, site(repo, k.mh_test.ast), f"{len(acc)} accept-region statements all guarded by not-NaN and not-inf of {Ltxt}")


# ------------------------------------------------------------------------------------------------ R2
def _assigned_in(nodes: List[Node]) -> Dict[str, Tuple[Node, ast.expr]]:
    out = {}
    for n in nodes:
        a = n.ast
        if isinstance(a, ast.Assign) and len(a.targets) == 1:
            t = a.targets[0]
            if isinstance(t, ast.Subscript):
                out[unparse(t)] = (n, a.value)
            else:
                p = path_of(t)
                if p:
                    out[p] = (n, a.value)
    return out


def _r2(chk, repo, k: Kernel):
    acc = k.accept_nodes()
    asg = _assigned_in(acc)
    problems = []
    Ptxt = unparse(k.P) if k.P is not None else "?"
    Ltxt = unparse(k.L) if k.L is not None else "?"

    def expands_to(expr, node, want):
        return unparse(k.ex.expand(expr, node)) == want

    if k.family == "cwmh":
        _r2_cwmh(chk, repo, k, acc, asg)
        return
    if k.iface == "exp":
        keys = repo.fold_keys(k.ci, "_STATE_KEYS")
        caches = sorted(x for x in keys if x.startswith("current_") and x != "current_point")
        need = ["self.current_point"] + [f"self.{c}" for c in caches]
        for h in need:
            if h not in asg:
                problems.append(f"{h} is not installed in the accept branch")
        if "self.current_point" in asg and not expands_to(asg["self.current_point"][1], asg["self.current_point"][0], Ptxt):
            problems.append(f"installed point `{unparse(asg['self.current_point'][1])}` is not the proposal {Ptxt} whose log-density entered the ratio")
        for c in caches:
            h = f"self.{c}"
            if h not in asg:
                continue
            n, v = asg[h]
            if c.endswith("logd"):
                if not expands_to(v, n, Ltxt):
                    problems.append(f"{h} is set to `{unparse(v)}`, not to the proposed log-density {Ltxt}")
            elif c.endswith("grad"):
                if k.family == "mala":
                    if unparse(v) != func_params(k.fn)[3]:
                        problems.append(f"{h} is set to `{unparse(v)}`, not to the gradient at the proposal")
                else:
                    problems.append(f"unexpected gradient cache {h}")
        # nothing of the state is assigned outside the accept region
        for n in k.g.nodes:
            if n in acc or n.ast is None:
                continue
            if isinstance(n.ast, (ast.Assign, ast.AugAssign)):
                tg = n.ast.targets if isinstance(n.ast, ast.Assign) else [n.ast.target]
                for t in tg:
                    if path_of(t) in need:
                        problems.append(f"{path_of(t)} is also assigned outside the accept branch (line {n.lineno})")
        if k.family == "mala":
            _mala_callsite(chk, repo, k, problems)
    else:
        params = func_params(k.fn)
        rets = [n for n in k.g.returns()]
        if k.family in ("mh", "pcn"):
            if len(rets) != 1 or not isinstance(rets[0].ast.value, ast.Tuple) or len(rets[0].ast.value.elts) != 3:
                raise AnchorError(f"{k.label}: expected a single `return x_next, logd_next, acc`")
            r0, r1, _ = [path_of(e) for e in rets[0].ast.value.elts]
            if r0 not in asg or not expands_to(asg[r0][1], asg[r0][0], Ptxt):
                problems.append(f"accept branch does not set the returned point {r0} to the proposal {Ptxt}")
            if r1 not in asg or not expands_to(asg[r1][1], asg[r1][0], Ltxt):
                problems.append(f"accept branch does not set the returned log-density {r1} to {Ltxt}")
            # reject region: every other definition of r0/r1 reaching the return is the incoming value
            for name, want in ((r0, params[1]), (r1, params[2])):
                for dn, rhs in k.ex.defs(rets[0], name):
                    if dn in acc:
                        continue
                    if rhs is None or path_of(rhs) != want:
                        problems.append(f"on rejection {name} is `{unparse(rhs) if rhs is not None else 'undefined'}`, not the incoming {want}")
        elif k.family == "mala":
            acc_rets = [n for n in rets if n in acc]
            rej_rets = [n for n in rets if n not in acc]
            if len(acc_rets) != 1 or len(rej_rets) != 1:
                raise AnchorError(f"{k.label}: expected one return in the accept branch and one in the reject branch")
            ea = [unparse(k.ex.expand(e, acc_rets[0])) for e in acc_rets[0].ast.value.elts]
            gstar, _ = _mala_gradients(k)
            if ea[:3] != [Ptxt, Ltxt, gstar]:
                problems.append(f"accept branch returns {ea[:3]}, not (proposal, its log-density, its gradient) = {[Ptxt, Ltxt, gstar]}")
            er = [unparse(e).replace(".copy()", "") for e in rej_rets[0].ast.value.elts]
            if er[:3] != params[1:4]:
                problems.append(f"reject branch returns {er[:3]}, not the incoming state {params[1:4]}")
    chk.add("C02-R2", k.label, not problems, site(repo, k.mh_test.ast),
            f"accept installs ({Ptxt}, {Ltxt}{', gradient' if k.family == 'mala' else ''}) together; reject keeps the incoming state",
            "; ".join(problems), k.fn)


def _mala_callsite(chk, repo, k: Kernel, problems: List[str]):
    """experimental MALA: step() passes (x*, logd(x*), gradient(x*)) of the same x* to _accept_or_reject."""
    step = repo.method(k.ci, "step")[1]
    ex = Expander(step)
    calls = [c for c in ast.walk(step) if isinstance(c, ast.Call) and call_name(c) == "self._accept_or_reject"]
    if len(calls) != 1:
        raise AnchorError(f"{k.ci.qual}.step: expected one call of _accept_or_reject")
    c = calls[0]
    n = ex.cfg.stmt_node_containing(c)
    # positional and keyword arguments bound to _accept_or_reject's parameter list
    ps = func_params(repo.method(k.ci, "_accept_or_reject")[1])[1:]
    bound = dict(zip(ps, c.args))
    bound.update({kw.arg: kw.value for kw in c.keywords if kw.arg})
    raw_args = [bound[p_] for p_ in ps[:3] if p_ in bound]
    args = [ex.expand(a, n) for a in raw_args]
    if len(args) != 3:
        problems.append("_accept_or_reject is not called with (x*, logd*, grad*)")
        return
    x = unparse(raw_args[0])
    a1, a2 = _is_logd_call(args[1]), _is_gradient_call(args[2])
    xe = unparse(args[0])
    if a1 is None or unparse(ex.expand(a1, n)) != xe:
        problems.append(f"step(): second argument `{unparse(args[1])}` is not the target log-density at the proposal {x}")
    if a2 is None or unparse(ex.expand(a2, n)) != xe:
        problems.append(f"step(): third argument `{unparse(args[2])}` is not the target gradient at the proposal {x}")
    if a1 is not None and not unparse(args[1]).startswith("self.target.logd("):
        problems.append("log-density is not evaluated on self.target")


def _r2_cwmh(chk, repo, k: Kernel, acc, asg):
    """Component-wise kernel: inside the component loop the accept branch copies component j of the proposal into the
    running point and the proposal's log-density into the running log-density; the trial vector is re-synchronised
    from the running point every iteration."""
    problems = []
    fn = k.fn
    loops = [n for n in ast.walk(fn) if isinstance(n, ast.For)]
    if len(loops) != 1 or not isinstance(loops[0].target, ast.Name):
        raise AnchorError(f"{k.label}: expected one component loop")
    loop = loops[0]
    j = loop.target.id
    try:
        _ex = Expander(fn)
        it_txt = unparse(_ex.expand(loop.iter, _ex.cfg.node_of(loop)))
    except Exception:
        it_txt = unparse(loop.iter)
    if it_txt != "range(self.dim)":
        problems.append(f"component loop iterates {it_txt}, not range(self.dim)")
    trial = path_of(k.P) if k.P is not None else None          # x_star
    cur_l = path_of(k.cur) if k.cur is not None else None      # target_eval_t
    # trial[j] = SRC[j] precedes the evaluation
    trial_sets = [n for n in loop.body if isinstance(n, ast.Assign) and isinstance(n.targets[0], ast.Subscript)
                  and path_of(n.targets[0].value) == trial and unparse(n.targets[0].slice) == j]
    if len(trial_sets) != 1:
        problems.append(f"expected exactly one `{trial}[{j}] = ...` per component")
        src = None
    else:
        src = trial_sets[0].value
        if not (isinstance(src, ast.Subscript) and unparse(src.slice) == j):
            problems.append(f"proposed component `{unparse(src)}` is not component {j} of the proposal draw")
    # accept: running point component and running logd
    pt_sets = [(key, v) for key, v in asg.items() if key.endswith(f"[{j}]") and not key.startswith("acc")]
    if len(pt_sets) != 1:
        problems.append(f"accept branch must update exactly one point component, found {[p for p, _ in pt_sets]}")
        run_pt = None
    else:
        key, (n, v) = pt_sets[0]
        run_pt = key[: -len(f"[{j}]")]
        if src is not None and unparse(v) != unparse(src):
            problems.append(f"accepted component `{unparse(v)}` differs from the component `{unparse(src)}` whose log-density was evaluated")
    if cur_l not in asg:
        problems.append(f"accept branch does not update the running log-density {cur_l}")
    else:
        n, v = asg[cur_l]
        if k.L is None or unparse(k.ex.expand(v, n)) != unparse(k.L):
            problems.append(f"running log-density is set to `{unparse(v)}`, not to {unparse(k.L) if k.L is not None else '?'}")
    # resynchronisation trial = run_pt.copy() at loop end, and both start as copies of the current point
    if run_pt is not None:
        last = loop.body[-1]
        if not (isinstance(last, ast.Assign) and path_of(last.targets[0]) == trial and unparse(last.value) == f"{run_pt}.copy()"):
            problems.append(f"trial vector {trial} is not re-synchronised with `{run_pt}.copy()` at the end of each component update")
        pre = [n for n in fn.body if isinstance(n, ast.Assign) and path_of(n.targets[0]) in (trial, run_pt)]
        cur = _current_point_expr(k)
        init = {path_of(n.targets[0]): unparse(n.value) for n in pre}
        if k.iface == "exp":
            if init.get(run_pt) != f"{cur}.copy()":
                problems.append(f"running point {run_pt} is not a copy of {cur}")
            if init.get(trial) not in (f"{cur}.copy()", f"{run_pt}.copy()"):
                problems.append(f"trial vector {trial} is not initialised as a copy of the current point")
            # write-back after the loop
            tail = fn.body[fn.body.index(loop) + 1:]
            wb = {path_of(n.targets[0]): unparse(n.value) for n in tail if isinstance(n, ast.Assign)}
            if wb.get("self.current_point") != run_pt or wb.get("self.current_target_logd") != cur_l:
                problems.append(f"after the component loop the state is not written back as (current_point, current_target_logd) = ({run_pt}, {cur_l})")
        else:
            if init.get(trial) != f"{run_pt}.copy()":
                problems.append(f"trial vector {trial} is not initialised as a copy of {run_pt}")
            rets = k.g.returns()
            if len(rets) != 1 or [unparse(e) for e in rets[0].ast.value.elts[:2]] != [run_pt, cur_l]:
                problems.append(f"single_update does not return ({run_pt}, {cur_l}, ...)")
    chk.add("C02-R2", k.label, not problems, site(repo, loop),
            f"per component {j}: {trial}[{j}] proposed, accepted into {run_pt}[{j}] with {cur_l} updated together, trial re-synchronised",
            "; ".join(problems), loop)


def _r7_legacy_initial_cache(chk, repo):
    """Legacy interface: the cached evaluation the chain starts with (`<eval>[0] = f(self.x0)`) is computed by the function the kernel compares proposals
    with, and the two chain drivers of a sampler (_sample / _sample_adapt) agree on it.  `logpdf` instead of `logd` drops the constant a reduced joint
    carries: until the first acceptance every ratio is off by that constant."""
    n = 0
    for ci in repo.classes_in("cuqi/sampler/"):
        su = ci.lookup("single_update")
        if su is None:
            continue
        kernel_calls = {call_name(c) for c in ast.walk(su[1]) if isinstance(c, ast.Call) and (call_name(c) or "").startswith(("self.target.", "self._loglikelihood", "self.likelihood."))
                        and (call_name(c) or "").rsplit(".", 1)[-1] in ("logd", "logpdf", "_loglikelihood")}
        per = {}
        for mname in ("_sample", "_sample_adapt"):
            fn = ci.methods.get(mname)
            if fn is None:
                continue
            for st in ast.walk(fn):
                if isinstance(st, ast.Assign):
                    tg = st.targets[0].elts if isinstance(st.targets[0], ast.Tuple) else [st.targets[0]]
                    vs = st.value.elts if isinstance(st.value, ast.Tuple) and len(st.value.elts) == len(tg) else [st.value] * len(tg)
                    for t, v in zip(tg, vs):
                        if isinstance(t, ast.Subscript) and isinstance(t.slice, ast.Constant) and t.slice.value == 0 and isinstance(v, ast.Call) \
                                and v.args and path_of(v.args[0]) == "self.x0" and (call_name(v) or "").rsplit(".", 1)[-1] in ("logd", "logpdf", "_loglikelihood"):
                            per.setdefault(mname, set()).add(call_name(v))
        if not per:
            continue
        n += 1
        allc = set().union(*per.values())
        ok = len(allc) == 1 and (not kernel_calls or allc <= kernel_calls)
        chk.add("C02-R7", f"{ci.qual}/initial-cache", ok, f"{ci.module.rel}:{ci.node.lineno}", f"initial cached evaluation by {sorted(kernel_calls) or sorted(allc)} in every chain driver",
                f"the chain drivers fill the initial cached evaluation with {({k: sorted(v) for k, v in per.items()})} while single_update compares proposals through "
                f"{sorted(kernel_calls)}: the first ratios mix two different functions (logpdf lacks the constant of a reduced joint)")
    if n < 3:
        raise AnchorError(f"legacy initial cached evaluations found for {n} samplers, at least 3 expected")


# ------------------------------------------------------------------------------------------------ R4
def _ancestors(node, root):
    """AST ancestors of node inside root (computed by search; the raw trees carry no parent links)"""
    path = []

    def rec(cur, stack):
        if cur is node:
            path.extend(stack)
            return True
        for ch in ast.iter_child_nodes(cur):
            if rec(ch, stack + [cur]):
                return True
        return False
    rec(root, [])
    return path


def _r4(chk, repo):
    targets = [("cuqi/experimental/mcmc/_mh.py", "MH"), ("cuqi/experimental/mcmc/_cwmh.py", "CWMH"),
               ("cuqi/sampler/_mh.py", "MH"), ("cuqi/sampler/_cwmh.py", "CWMH")]
    for mod, cls in targets:
        ci = repo.cls(f"{mod}:{cls}")
        p = ci.lookup_prop("proposal")
        inst = f"{ci.qual}.@proposal="
        if p is None or p.setter is None:
            raise AnchorError(f"{ci.qual}: no proposal setter")
        fn = p.setter
        from .common import canon_keep
        try:
            fn_in = canon_keep(repo, ci, p.setter, keep={"validate_proposal"})       # a private "validate or restore" helper inlined
            if any(isinstance(n_, ast.Assign) and path_of(n_.targets[0]) == "self._proposal" for n_ in ast.walk(fn_in)) and \
                    not any(isinstance(n_, ast.Try) for n_ in ast.walk(fn)) and any(isinstance(n_, ast.Try) for n_ in ast.walk(fn_in)):
                fn = fn_in
        except Exception:
            pass
        g = CFG(fn)
        vparam = func_params(fn)[1]
        problems = []
        # every store of the user-provided object into self._proposal ...
        stores = [n for n in g.nodes if isinstance(n.ast, ast.Assign) and path_of(n.ast.targets[0]) == "self._proposal"
                  and vparam in {x.id for x in ast.walk(n.ast.value) if isinstance(x, ast.Name)}]
        if not stores:
            raise AnchorError(f"{inst}: no store of the user-provided proposal found")
        nchecked = 0
        tests = g.tests()
        dist_F = {(t.id, "F") for t in tests if "isinstance" in unparse(t.ast) and "Distribution" in unparse(t.ast)
                  and vparam in unparse(t.ast)}
        sym_T = {(t.id, "T") for t in tests if unparse(t.ast).replace(" ", "") == f"{vparam}.is_symmetric"}
        for st in stores:
            gtxt = [(unparse(t.ast), lab) for t, lab in g.guards_of(st)]
            if any("isinstance" in t and "Distribution" in t and lab == "F" for t, lab in gtxt):
                chk.note(f"C02-R4 {inst}: callable (non-Distribution) proposals cannot be validated; symmetry is the caller's responsibility (tabled)")
                continue
            if any("isinstance" in t and t.endswith(".Normal)") and lab == "T" for t, lab in gtxt) and _normal_is_symmetric(repo):
                chk.note(f"C02-R4 {inst}: branch restricted to cuqi.distribution.Normal, whose constructor passes is_symmetric=True")
                continue
            nchecked += 1
            # is there a path to the store on which the value is a Distribution and its symmetry was never established?
            reach = g.reachable_from([g.entry.id], avoid_edges=dist_F | sym_T)
            if st.id not in reach:
                continue
            # validated after the store: self.validate_proposal() reached from the store, and it raises on asymmetry
            after = [n for n in g.nodes if n.ast is not None and any(
                isinstance(c, ast.Call) and call_name(c) == "self.validate_proposal" for c in ast.walk(n.ast))]
            if any(g.reaches(st, a) for a in after) and _validate_raises_on_asymmetry(repo, ci):
                # ... which is a refusal only if the refused object does not stay installed: the validating call sits in a try whose handler
                # re-binds self._proposal (to the previous value) and re-raises
                rolled = False
                for a in after:
                    for anc in _ancestors(a.ast, fn):
                        if isinstance(anc, ast.Try):
                            for h in anc.handlers:
                                rebinds = any(isinstance(x, ast.Assign) and path_of(x.targets[0]) == "self._proposal" and vparam not in {y.id for y in ast.walk(x.value) if isinstance(y, ast.Name)}
                                              for x in ast.walk(h))
                                reraises = any(isinstance(x, ast.Raise) for x in h.body)
                                rolled = rolled or (rebinds and reraises)
                if rolled:
                    continue
                problems.append(f"line {st.lineno}: the user-provided proposal is stored first and validated afterwards without rolling the store back: the ValueError is raised but "
                                f"the asymmetric proposal stays installed, and a caller who catches the error keeps sampling with a kernel whose ratio has no proposal correction")
                continue
            problems.append(f"line {st.lineno}: a user-provided proposal distribution can be stored without its is_symmetric flag "
                            f"having been required (the ratio has no proposal correction)")
        chk.add("C02-R4", inst, not problems, site(repo, fn),
                f"{nchecked} store(s) of a user-provided proposal distribution, each requires symmetry", "; ".join(problems), fn)


def _normal_is_symmetric(repo) -> bool:
    fn = repo.func("cuqi/distribution/_normal.py:Normal.__init__")
    d = {a.arg: dv for a, dv in zip(reversed(fn.args.args), reversed(fn.args.defaults))}
    ok_default = "is_symmetric" in d and isinstance(d["is_symmetric"], ast.Constant) and d["is_symmetric"].value is True
    passes = any(isinstance(c, ast.Call) and any(kw.arg == "is_symmetric" and unparse(kw.value) == "is_symmetric" for kw in c.keywords)
                 for c in ast.walk(fn))
    return ok_default and passes


def _validate_raises_on_asymmetry(repo, ci) -> bool:
    r = ci.lookup("validate_proposal")
    if r is None:
        return False
    from .common import canon_fn
    # as written, and with the private helpers of the class inlined and their single-assignment temporaries substituted (a shared `_validate_...` helper)
    for fn in (r[1], canon_fn(repo, ci, r[1], 3)):
        g = CFG(fn)
        for t in g.tests():
            if unparse(t.ast).replace(" ", "") == "self.proposal.is_symmetric":
                falses = [m for m, lab in g.succ[t.id] if lab == "F"]
                if falses and all(g.nodes[m].kind == "raisestmt" for m in falses):
                    return True
    return False


# ------------------------------------------------------------------------------------------------ R5
def _r5(chk, repo, kernels):
    for k in kernels:
        if k.family == "pcn":
            problems = []
            P = k.P
            if P is None:
                continue
            Pe = k.ex.expand(P, k.mh_test)
            terms = signed_terms(Pe)
            cur = _current_point_expr(k)
            syms = {"self.scale": "s"}
            got = {}
            for sgn, t in terms:
                (c, pw), rest = split_coefficient(t, syms)
                factors = _mul_fac(t)
                got[tuple(rest)] = (sgn, t)
            a_term = [t for s, t in terms if s > 0 and cur in unparse(t)]
            b_term = [t for s, t in terms if s > 0 and cur not in unparse(t)]
            if len(terms) != 2 or len(a_term) != 1 or len(b_term) != 1:
                problems.append(f"proposal `{unparse(Pe)}` is not a*x + b*xi")
            else:
                fa = _mul_fac(a_term[0])
                fb = _mul_fac(b_term[0])
                a_coef = [f for f in fa if unparse(f) != cur]
                b_coef = [f for f in fb if unparse(f) == "self.scale"]
                xi = [f for f in fb if unparse(f) != "self.scale"]
                if [unparse(f).replace(" ", "") for f in a_coef] != ["np.sqrt(1-self.scale**2)"]:
                    problems.append(f"coefficient of the current point is `{' * '.join(unparse(f) for f in a_coef)}`, not sqrt(1 - scale**2)")
                if len(b_coef) != 1:
                    problems.append("coefficient of the prior draw is not the scale")
                if len(xi) != 1 or unparse(xi[0]) != "self.prior.sample(1).flatten()":
                    problems.append(f"innovation `{' * '.join(unparse(f) for f in xi)}` is not one draw of the prior")
            if not (isinstance(k.L, ast.Call) and call_name(k.L) == "self._loglikelihood"):
                problems.append("ratio is not likelihood-only (self._loglikelihood)")
            else:
                problems += _loglikelihood_is_likelihood(repo, k)
            chk.add("C02-R5", k.label, not problems, site(repo, k.fn), f"x* = {unparse(Pe)}; ratio uses the likelihood only",
                    "; ".join(problems), Pe)
        if k.family == "mala":
            problems = []
            # proposal in step/single_update: x* = cur + c1*grad_cur + xi, xi ~ Normal(0, std = sd)
            if k.iface == "exp":
                step = repo.method(k.ci, "step")[1]
                lp = repo.method(k.ci, "_log_proposal")[1]
                cur, gcur = "self.current_point", "self.current_target_grad"
            else:
                step = k.fn
                lp = repo.method(k.ci, "log_proposal")[1]
                cur, gcur = func_params(k.fn)[1], func_params(k.fn)[3]
            ex = Expander(step)
            xs = None
            for n in ex.cfg.nodes:
                if isinstance(n.ast, ast.Assign) and path_of(n.ast.targets[0]) == "x_star":
                    xs = (n, ex.expand(n.ast.value, n))
            if xs is None:
                raise AnchorError(f"{k.label}: proposal x_star not found")
            syms = {"self.scale": "s"}
            drift = var = None
            for sgn, t in signed_terms(xs[1]):
                txt = unparse(t)
                if txt == cur:
                    continue
                if gcur in txt:
                    (c, pw), rest = split_coefficient(t, syms)
                    if rest == [gcur] and sgn > 0:
                        drift = (c, pw)
                    else:
                        problems.append(f"drift term `{txt}` is not coef * {gcur}")
                elif isinstance(t, ast.Call) and "Normal" in txt and "sample" in txt:
                    normal = t.func.value
                    kw = {kk.arg: kk.value for kk in normal.keywords}
                    try:
                        c, pw = monomial(kw["std"], syms)
                        var = (c * c, {a: 2 * b for a, b in pw.items()})
                    except (KeyError, NotMonomial):
                        problems.append(f"innovation `{txt}` is not Normal(0, std=monomial in scale)")
                    if "mean" not in kw or "np.zeros" not in unparse(kw["mean"]):
                        problems.append("innovation mean is not zero")
                else:
                    problems.append(f"unexpected term `{txt}` in the MALA proposal")
            # log_proposal(theta_star, theta_k, g_k) = coef * |theta_star - (theta_k + d*g_k)|^2
            exl = Expander(lp)
            rn = exl.cfg.returns()[0]
            re_ = exl.expand(rn.ast.value, rn)
            (c, pw), rest = split_coefficient(re_, syms)
            ps = func_params(lp)[1:]
            mis = f"{ps[0]} - ({ps[1]} + "
            d_l = None
            for r in rest:
                if r.startswith(mis):
                    inner = ast.parse(r, mode="eval").body
                    t2 = inner.right.right     # (theta_k + X*g)
                    (c2, pw2), rest2 = split_coefficient(t2, syms)
                    if rest2 == [ps[2]]:
                        d_l = (c2, pw2)
            if drift is None or var is None:
                problems.append("could not identify drift/variance of the proposal")
            else:
                if d_l != drift:
                    problems.append(f"drift coefficient in log_proposal {d_l} differs from the one used to propose {drift}")
                # log q = -(1/(2 var)) |.|^2
                want = (Fraction(-1, 2) / var[0], {a: -b for a, b in var[1].items()})
                if (c, pw) != want:
                    problems.append(f"log_proposal prefactor {(c, pw)} is not -1/(2*variance) = {want}")
                if len([r for r in rest if "misfit.T" in r or r.startswith(mis) or (r.startswith("(" + mis) and r.endswith(").T"))]) != 2:
                    problems.append(f"log_proposal is not a squared norm of the misfit: {unparse(re_)}")
            chk.add("C02-R5", k.label, not problems, site(repo, lp), f"proposal drift {drift}, variance {var} agree with log_proposal",
                    "; ".join(problems), re_)


def _mul_fac(e):
    if isinstance(e, ast.BinOp) and isinstance(e.op, (ast.Mult, ast.MatMult)):
        return _mul_fac(e.left) + _mul_fac(e.right)
    return [e]


def _loglikelihood_is_likelihood(repo, k: Kernel) -> List[str]:
    """self._loglikelihood(x) must be self.likelihood.logd(x) with likelihood = target.likelihood."""
    out = []
    r = k.ci.lookup("_loglikelihood")
    body = None
    if r is not None:
        rets = [n for n in ast.walk(r[1]) if isinstance(n, ast.Return)]
        body = rets[0].value if len(rets) == 1 else None
    else:
        # legacy: a callable stored by the target setter (lambda or nested def): compared by its body with the parameter renamed
        from ..pathtable import callable_text
        from ..pattern import norm as pn
        texts = set()
        for c in k.ci.mro():
            for kind, name, fn in c.all_functions():
                local_defs = {d.name: d for d in ast.walk(fn) if isinstance(d, ast.FunctionDef) and d is not fn}
                for n in ast.walk(fn):
                    if isinstance(n, ast.Assign) and path_of(n.targets[0]) == "self._loglikelihood":
                        v = n.value
                        if isinstance(v, ast.Name) and v.id in local_defs:
                            v = local_defs[v.id]
                        texts.add(callable_text(v, pn))
        if len(texts) > 1:
            out.append("two different definitions of _loglikelihood")
        if texts != {"lambda _a0:self.likelihood.logd(_a0)"}:
            out.append(f"_loglikelihood is `{sorted(texts) or 'missing'}`, not x -> self.likelihood.logd(x)")
        body = True
    if body is None or (body is not True and unparse(body) != "self.likelihood.logd(x)"):
        out.append(f"_loglikelihood is `{unparse(body) if body is not None else 'missing'}`, not self.likelihood.logd(x)")
    for pname, allowed in (("likelihood", ("self.target.likelihood", "self.target[0]")), ("prior", ("self.target.prior", "self.target[1]"))):
        p = k.ci.lookup_prop(pname)
        if p is None or p.getter is None:
            out.append(f"no {pname} property")
        else:
            # an implicit / explicit `return None` for an unsupported target is not a source of the quantity
            # (returned values with local aliases such as `target = self.target` replaced by their definitions)
            from ..flow import Expander
            ex = Expander(p.getter)
            rets = [unparse(ex.expand(r.ast.value, r)) for r in ex.cfg.returns() if r.ast.value is not None
                    and not (isinstance(r.ast.value, ast.Constant) and r.ast.value.value is None)]
            if not rets or not all(rv in allowed for rv in rets):
                out.append(f"{pname} property returns {rets}")
    return out
