"""Global random state: library code never re-seeds or replaces the state of the process-wide generators (np.random.seed / np.random.set_state /
random.seed, also through `from numpy.random import seed` or an alias of the module).  A routine that wants reproducible internal randomness creates
its own generator (np.random.RandomState(seed) / default_rng(seed)).  Zero hits are expected; a small positive control must fire on every run."""
from __future__ import annotations
import ast
from typing import List

GLOBAL_SETTERS = {"seed", "set_state"}


def scan(tree) -> List[ast.Call]:
    np_names, npr_names, rnd_names, direct = {"np", "numpy"}, set(), set(), set()
    for n in ast.walk(tree):
        if isinstance(n, ast.Import):
            for a in n.names:
                if a.name == "numpy":
                    np_names.add(a.asname or "numpy")
                elif a.name == "numpy.random":
                    (npr_names if a.asname else np_names).add(a.asname or "numpy")
                elif a.name == "random":
                    rnd_names.add(a.asname or "random")
        elif isinstance(n, ast.ImportFrom):
            if n.module == "numpy":
                for a in n.names:
                    if a.name == "random":
                        npr_names.add(a.asname or "random")
            elif n.module in ("numpy.random", "random"):
                for a in n.names:
                    if a.name in GLOBAL_SETTERS:
                        direct.add(a.asname or a.name)
    out = []
    for c in ast.walk(tree):
        if not isinstance(c, ast.Call):
            continue
        f = c.func
        if isinstance(f, ast.Name) and f.id in direct:
            out.append(c)
        elif isinstance(f, ast.Attribute) and f.attr in GLOBAL_SETTERS:
            v = f.value
            if isinstance(v, ast.Attribute) and v.attr == "random" and isinstance(v.value, ast.Name) and v.value.id in np_names:
                out.append(c)
            elif isinstance(v, ast.Name) and (v.id in npr_names or v.id in rnd_names):
                out.append(c)
    return out


_CONTROL = '''
import numpy as np
from numpy import random as npr
def phantom(seed=1):
    np.random.seed(seed)
    rng = np.random.RandomState(seed)
    npr.set_state(None)
    rng.seed(3)
    return rng.rand()
'''


def global_rng_rule(chk, repo, rule: str, prefixes) -> int:
    from .index import AnchorError
    hits = scan(ast.parse(_CONTROL))
    if sorted(h.lineno for h in hits) != [5, 7]:
        raise AnchorError(f"global-RNG positive control did not fire as expected: {[h.lineno for h in hits]}")
    n = 0
    for rel in sorted(repo.modules):
        if not rel.startswith(tuple(prefixes)):
            continue
        m = repo.modules[rel]
        repo.consulted[rel] = m.digest
        n += 1
        found = scan(m.tree)
        if not found:
            chk.ok(rule, f"{rel}/global-rng", f"{rel}:1", "no call re-seeds or replaces the global random state")
        for c in found:
            chk.fail(rule, f"{rel}/global-rng@{ast.unparse(c)[:40]}", f"{rel}:{c.lineno}",
                     f"`{ast.unparse(c)[:60]}` resets the process-wide random generator: every draw made afterwards (the noise of a test problem built right after "
                     f"this call, the user's own stream) is the same for every user seed; internal reproducibility needs a local generator (np.random.RandomState(seed))", c)
    return n
