"""Small AST helpers shared by the rules."""
from __future__ import annotations
import ast
from typing import Iterable, Iterator, List, Optional, Set

from .cfg import path_of

MUTATOR_METHODS = {
    "append", "extend", "insert", "pop", "remove", "clear", "sort", "reverse", "update", "setdefault",
    "popitem", "add", "discard", "fill", "resize", "itemset", "put", "setflags", "partition", "byteswap",
    "__setitem__", "__iadd__", "__imul__", "__isub__",
}
# numpy functions with an out= / in-place first argument
INPLACE_FUNCS = {"np.fill_diagonal", "np.put", "np.place", "np.copyto", "np.random.shuffle", "random.shuffle",
                 "np.putmask", "np.add.at"}
COPY_METHODS = {"copy", "flatten", "astype", "tolist", "toarray", "todense", "tocsc", "tocsr", "__deepcopy__"}
COPY_FUNCS = {"copy", "deepcopy", "np.copy", "np.array", "list", "dict", "set", "tuple", "np.zeros", "np.ones",
              "np.empty", "np.zeros_like", "np.ones_like", "np.empty_like", "np.hstack", "np.vstack", "np.concatenate",
              "np.repeat", "np.tile", "np.diag", "np.eye", "np.linspace", "np.arange", "np.exp", "np.log", "np.sqrt",
              "np.abs", "np.maximum", "np.minimum", "np.sum", "np.mean", "np.linalg.norm", "float", "int", "str", "len",
              "np.random.randn", "np.random.rand", "np.random.normal", "np.random.standard_normal"}
VIEW_METHODS = {"reshape", "ravel", "view", "squeeze", "transpose", "swapaxes", "T", "to_numpy"}   # CUQIarray.to_numpy is self.view(np.ndarray)
VIEW_FUNCS = {"np.asarray", "np.reshape", "np.ravel", "np.squeeze", "np.transpose", "np.atleast_1d", "np.atleast_2d",
              "np.asanyarray", "np.ascontiguousarray"}


def unparse(e) -> str:
    try:
        return ast.unparse(e)
    except Exception:
        return "<?>"


def call_name(c: ast.Call) -> Optional[str]:
    """Dotted name of the callee ('np.linalg.solve', 'self._foo', 'copy')."""
    return path_of(c.func)


def walk_no_nested(node: ast.AST) -> Iterator[ast.AST]:
    """ast.walk that does not descend into nested function/class definitions or lambdas (except the root)."""
    stack = [node]
    first = True
    while stack:
        n = stack.pop()
        if not first and isinstance(n, (ast.FunctionDef, ast.AsyncFunctionDef, ast.ClassDef, ast.Lambda)):
            continue
        first = False
        yield n
        stack.extend(ast.iter_child_nodes(n))


def names_in(e: ast.AST) -> Set[str]:
    return {n.id for n in ast.walk(e) if isinstance(n, ast.Name)}


def paths_in(e: ast.AST) -> Set[str]:
    """All maximal attribute-chain paths / names read in expression e."""
    from .cfg import reads_in
    return reads_in(e)


def contains_call(e: ast.AST, names: Iterable[str]) -> bool:
    names = set(names)
    for n in ast.walk(e):
        if isinstance(n, ast.Call):
            cn = call_name(n)
            if cn in names or (cn and cn.split(".")[-1] in names):
                return True
    return False


def calls_in(e: ast.AST) -> List[ast.Call]:
    return [n for n in ast.walk(e) if isinstance(n, ast.Call)]


def is_raise_only(body: List[ast.stmt]) -> bool:
    return len(body) >= 1 and isinstance(body[-1], ast.Raise)


def const_str(e) -> Optional[str]:
    if isinstance(e, ast.Constant) and isinstance(e.value, str):
        return e.value
    return None


def strip_docstring(body: List[ast.stmt]) -> List[ast.stmt]:
    if body and isinstance(body[0], ast.Expr) and isinstance(body[0].value, ast.Constant) and isinstance(body[0].value.value, str):
        return body[1:]
    return body


def is_abstract(fn: ast.FunctionDef) -> bool:
    for d in fn.decorator_list:
        if unparse(d).endswith("abstractmethod"):
            return True
    return False


def func_params(fn) -> List[str]:
    a = fn.args
    out = [x.arg for x in a.posonlyargs + a.args]
    if a.vararg:
        out.append(a.vararg.arg)
    out += [x.arg for x in a.kwonlyargs]
    if a.kwarg:
        out.append(a.kwarg.arg)
    return out


def same_expr(a: ast.AST, b: ast.AST) -> bool:
    return ast.dump(a) == ast.dump(b)


def flatten_add(e: ast.expr, sign=1):
    """Flatten an additive expression into [(sign, term)]."""
    if isinstance(e, ast.BinOp) and isinstance(e.op, ast.Add):
        return flatten_add(e.left, sign) + flatten_add(e.right, sign)
    if isinstance(e, ast.BinOp) and isinstance(e.op, ast.Sub):
        return flatten_add(e.left, sign) + flatten_add(e.right, -sign)
    if isinstance(e, ast.UnaryOp) and isinstance(e.op, ast.USub):
        return flatten_add(e.operand, -sign)
    if isinstance(e, ast.UnaryOp) and isinstance(e.op, ast.UAdd):
        return flatten_add(e.operand, sign)
    return [(sign, e)]


def flatten_mul(e: ast.expr):
    """Flatten a product/matrix-product chain into factors (left to right); division -> ('/', x)."""
    if isinstance(e, ast.BinOp) and isinstance(e.op, (ast.Mult, ast.MatMult)):
        return flatten_mul(e.left) + flatten_mul(e.right)
    return [e]
