"""Swapped-argument lint: a call of a method of the same class that passes two of the CALLER's own variables, each named exactly like a parameter of
the callee, in each other's positions (`self._sample(Nb, N)` where the callee is `_sample(self, N, Nb)`).  Names are the repository's own evidence of
which value belongs where; the rule fires only on an exact two-way swap (both names are parameter names of the callee, both are in the other's slot),
so renamed locals, keyword calls and partial overlaps are never reported."""
from __future__ import annotations
import ast
from .astutil import call_name, func_params, unparse

CONTROL = """
class K:
    def _sample(self, N, Nb):
        return N, Nb
    def good(self, N, Nb):
        return self._sample(N, Nb)
    def bad(self, N, Nb):
        return self._sample(Nb, N)
    def kw(self, N, Nb):
        return self._sample(Nb=Nb, N=N)
"""


def swapped_calls(cls_node_methods, lookup):
    """[(caller_name, call, (a, b))] for every exact two-way swap; `cls_node_methods`: iterable of FunctionDef; lookup(name) -> FunctionDef or None"""
    out = []
    for fn in cls_node_methods:
        for c in ast.walk(fn):
            if not isinstance(c, ast.Call):
                continue
            cn = call_name(c) or ""
            if not (cn.startswith("self.") and cn.count(".") == 1):
                continue
            callee = lookup(cn[5:])
            if callee is None or callee.args.vararg is not None:
                continue
            ps = func_params(callee)[1:]
            names = [a.id if isinstance(a, ast.Name) else None for a in c.args]
            for i, a in enumerate(names):
                if a is None or i >= len(ps) or a not in ps:
                    continue
                j = ps.index(a)
                if j != i and j < len(names) and names[j] is not None and names[j] == ps[i]:
                    if i < j:
                        out.append((fn.name, c, (a, names[j])))
    return out


def argswap_rule(chk, repo, rule, prefixes, floor_calls=50):
    from .props.common import site
    tree = ast.parse(CONTROL)
    k = tree.body[0]
    meths = {f.name: f for f in k.body if isinstance(f, ast.FunctionDef)}
    ctl = swapped_calls(meths.values(), meths.get)
    if [x[0] for x in ctl] != ["bad"]:
        raise RuntimeError("argswap: positive control failed")
    n = 0
    bad = []
    for pre in prefixes:
        for ci in repo.classes_in(pre):
            fns = [f for _, _, f in ci.all_functions()]
            n += sum(1 for f in fns for c in ast.walk(f) if isinstance(c, ast.Call) and (call_name(c) or "").startswith("self.") and len(c.args) >= 2)
            for name, c, pair in swapped_calls(fns, lambda m, ci=ci: (ci.lookup(m) or (None, None))[1]):
                bad.append((ci, name, c, pair))
    for ci, name, c, pair in bad:
        chk.fail(rule, f"{ci.qual}.{name}/argument-order", site(repo, c),
                 f"`{unparse(c)[:70]}` passes `{pair[0]}` and `{pair[1]}` in each other's positions (the callee's parameters are named exactly so): "
                 f"e.g. the number of samples and the burn-in exchanged - the chain has the right length internally but the wrong part of it is returned", c)
    if not bad:
        chk.ok(rule, "argument-order", "", f"{n} calls of own methods with two or more positional arguments, no exact two-way swap (positive control fired)")
    if n < floor_calls:
        from .index import AnchorError
        raise AnchorError(f"argswap: only {n} multi-argument calls of own methods found under {prefixes}")
