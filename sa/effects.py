"""Attribute effect summaries for methods of one receiver class (D4/D5 of DESIGN.md).

For a receiver class R and a method m (resolved through R's MRO) the summary gives
  ue      : attributes of `self` that may be read while still holding their value from before the call
  may_w   : attributes that may be rebound
  must_w  : attributes rebound on every normal path
  mutates : attributes whose object may be modified in place (subscript store, augmented assignment,
            known mutator methods)
Property reads/writes are expanded to the getter/setter bodies; `self.m()` and `super().m()` calls are
followed through the MRO; closures stored on `self` are expanded where the attribute is read;
setattr/getattr over `_STATE_KEYS` / `_HISTORY_KEYS` are modelled with the folded key sets.
"""
from __future__ import annotations
import ast
from dataclasses import dataclass, field
from typing import Dict, List, Optional, Set, Tuple

from .index import Repo, ClassInfo, AnchorError
from .cfg import CFG, Node, path_of
from .astutil import MUTATOR_METHODS, walk_no_nested, call_name, const_str


@dataclass
class Summary:
    ue: Set[str] = field(default_factory=set)
    may_w: Set[str] = field(default_factory=set)
    must_w: Set[str] = field(default_factory=set)
    mutates: Set[str] = field(default_factory=set)
    reads: Set[str] = field(default_factory=set)          # all reads (not only upward exposed)
    sites: Dict[Tuple[str, str], List[Tuple[str, int]]] = field(default_factory=dict)  # (kind, attr) -> [(file, line)]

    def add_site(self, kind, attr, where):
        self.sites.setdefault((kind, attr), [])
        if where not in self.sites[(kind, attr)]:
            self.sites[(kind, attr)].append(where)


class SelfEffects:
    def __init__(self, repo: Repo, receiver: ClassInfo):
        self.repo = repo
        self.recv = receiver
        self._memo: Dict[int, Summary] = {}
        self._stack: List[int] = []
        self.closures: Dict[str, ast.AST] = self._find_closures()
        self.key_sets = {}
        for k in ("_STATE_KEYS", "_HISTORY_KEYS"):
            if receiver.lookup_attr(k) is not None:
                self.key_sets[k] = repo.fold_keys(receiver, k)

    # ---------------------------------------------------------------- closures stored on self
    def _find_closures(self) -> Dict[str, ast.AST]:
        out = {}
        for c in self.recv.mro():
            for kind, name, fn in c.all_functions():
                local_defs = {n.name: n for n in walk_no_nested_body(fn) if isinstance(n, (ast.FunctionDef,))}
                for n in walk_no_nested(fn):
                    if isinstance(n, ast.Assign) and len(n.targets) == 1:
                        p = path_of(n.targets[0])
                        if p and p.startswith("self.") and p.count(".") == 1:
                            attr = p[5:]
                            if isinstance(n.value, ast.Lambda):
                                out.setdefault(attr, n.value)
                            elif isinstance(n.value, ast.Name) and n.value.id in local_defs:
                                out.setdefault(attr, local_defs[n.value.id])
        return out

    # ---------------------------------------------------------------- owner lookup
    def _owner_of(self, fn) -> Optional[ClassInfo]:
        for c in self.recv.mro():
            for _, _, f in c.all_functions():
                if f is fn:
                    return c
        return None

    def resolve_self_method(self, name: str):
        r = self.recv.lookup(name)
        return r[1] if r else None

    def resolve_super_method(self, fn, name: str):
        owner = self._owner_of(fn)
        if owner is None:
            # nested closure: find the enclosing method
            from .index import parents
            for p in parents(fn):
                if isinstance(p, (ast.FunctionDef,)):
                    owner = self._owner_of(p)
                    if owner:
                        break
        if owner is None:
            return None
        mro = self.recv.mro()
        try:
            i = mro.index(owner)
        except ValueError:
            return None
        for c in mro[i + 1:]:
            if name in c.methods:
                return c.methods[name]
        return None

    # ---------------------------------------------------------------- summaries
    def summary(self, fn) -> Summary:
        key = id(fn)
        if key in self._memo:
            return self._memo[key]
        if key in self._stack:
            return Summary()   # recursion: fixpoint approximated by the non-recursive part
        self._stack.append(key)
        try:
            s = self._compute(fn)
        finally:
            self._stack.pop()
        self._memo[key] = s
        return s

    def method_summary(self, name: str) -> Summary:
        fn = self.resolve_self_method(name)
        if fn is None:
            raise AnchorError(f"{self.recv.qual}: method {name} not found along the MRO")
        return self.summary(fn)

    def _events(self, fn, n: Node) -> List[Tuple[str, str, int]]:
        """Ordered events of one CFG node: ('r'|'w'|'W'|'m', attr, line). 'W' = definite write."""
        a = n.ast
        if a is None:
            return []
        ev: List[Tuple[str, str, int]] = []
        line = getattr(a, "lineno", 0)
        roots: List[ast.AST]
        targets: List[ast.expr] = []
        if n.kind == "iter":
            roots = [a.iter]
            targets = [a.target]
        elif n.kind == "with":
            roots = [it.context_expr for it in a.items]
            targets = [it.optional_vars for it in a.items if it.optional_vars is not None]
        elif n.kind == "except":
            roots = []
        elif isinstance(a, (ast.FunctionDef, ast.AsyncFunctionDef, ast.ClassDef)):
            roots = []
        elif isinstance(a, ast.Assign):
            roots = [a.value]
            targets = list(a.targets)
        elif isinstance(a, ast.AugAssign):
            roots = [a.value]
            targets = []
        elif isinstance(a, ast.AnnAssign):
            roots = [a.value] if a.value is not None else []
            targets = [a.target] if a.value is not None else []
        else:
            roots = [a]
        for r in roots:
            self._expr_events(fn, r, ev)
        if isinstance(a, ast.AugAssign):
            p = path_of(a.target)
            if p and p.startswith("self.") :
                attr = p.split(".")[1]
                if p.count(".") == 1:
                    self._read_attr(fn, attr, ev, line)
                    ev.append(("m", attr, line))     # ndarray/list += is in place
                    self._write_attr(fn, attr, ev, line)
                else:
                    self._read_attr(fn, attr, ev, line)
                    ev.append(("m", attr, line))
            elif isinstance(a.target, ast.Subscript):
                bp = path_of(a.target.value)
                self._expr_events(fn, a.target.slice, ev)
                if bp and bp.startswith("self."):
                    attr = bp.split(".")[1]
                    self._read_attr(fn, attr, ev, line)
                    ev.append(("m", attr, line))
        for t in targets:
            self._target_events(fn, t, ev, line)
        return ev

    def _target_events(self, fn, t, ev, line):
        if isinstance(t, (ast.Tuple, ast.List)):
            for el in t.elts:
                self._target_events(fn, el, ev, line)
            return
        if isinstance(t, ast.Starred):
            self._target_events(fn, t.value, ev, line)
            return
        if isinstance(t, ast.Attribute):
            p = path_of(t)
            if p and p.startswith("self."):
                parts = p.split(".")
                if len(parts) == 2:
                    self._write_attr(fn, parts[1], ev, line)
                else:
                    self._read_attr(fn, parts[1], ev, line)
                    ev.append(("m", parts[1], line))
            else:
                self._expr_events(fn, t.value, ev)
            return
        if isinstance(t, ast.Subscript):
            self._expr_events(fn, t.slice, ev)
            bp = path_of(t.value)
            if bp and bp.startswith("self."):
                attr = bp.split(".")[1]
                self._read_attr(fn, attr, ev, line)
                ev.append(("m", attr, line))
            else:
                self._expr_events(fn, t.value, ev)

    def _read_attr(self, fn, attr, ev, line):
        prop = self.recv.lookup_prop(attr)
        if prop is not None and prop.getter is not None and prop.getter is not fn:
            s = self.summary(prop.getter)
            self._splice(s, ev, line)
            return
        ev.append(("r", attr, line))
        if attr in self.closures and self.closures[attr] is not fn:
            s = self.summary(self.closures[attr])
            self._splice(s, ev, line)

    def _write_attr(self, fn, attr, ev, line):
        prop = self.recv.lookup_prop(attr)
        if prop is not None and prop.setter is not None and prop.setter is not fn:
            s = self.summary(prop.setter)
            self._splice(s, ev, line)
            return
        ev.append(("W", attr, line))

    def _splice(self, s: Summary, ev, line):
        for a in sorted(s.ue):
            ev.append(("r", a, line))
        for a in sorted(s.reads - s.ue):
            ev.append(("r0", a, line))       # read, but never of the pre-call value
        for a in sorted(s.mutates):
            ev.append(("m", a, line))
        for a in sorted(s.may_w - s.must_w):
            ev.append(("w", a, line))
        for a in sorted(s.must_w):
            ev.append(("W", a, line))

    def _expr_events(self, fn, e, ev):
        if e is None:
            return
        line = getattr(e, "lineno", 0)
        if isinstance(e, ast.Call):
            cn = call_name(e)
            # getattr/setattr/hasattr on self
            if cn in ("setattr", "getattr", "hasattr", "delattr") and e.args and path_of(e.args[0]) == "self":
                for x in e.args[2:]:
                    self._expr_events(fn, x, ev)
                key = const_str(e.args[1]) if len(e.args) > 1 else None
                keys = [key] if key is not None else self._keys_of_loop_var(e.args[1] if len(e.args) > 1 else None)
                if cn == "hasattr":
                    return
                for k in keys:
                    if cn == "getattr":
                        self._read_attr(fn, k, ev, line)
                    elif cn == "setattr":
                        if key is not None:
                            self._write_attr(fn, k, ev, line)
                        else:
                            # loop over a key set: every key is written by the loop as a whole, model as may-write
                            tmp = []
                            self._write_attr(fn, k, tmp, line)
                            ev.extend((("w" if t[0] == "W" else t[0]), t[1], t[2]) for t in tmp)
                return
            # arguments first
            for x in list(e.args) + [k.value for k in e.keywords]:
                self._expr_events(fn, x, ev)
            f = e.func
            if isinstance(f, ast.Attribute):
                bp = path_of(f.value)
                if bp == "self":
                    target = self.resolve_self_method(f.attr)
                    if target is not None:
                        self._splice(self.summary(target), ev, line)
                        return
                    # calling an attribute (closure / callable stored on self)
                    self._read_attr(fn, f.attr, ev, line)
                    return
                if isinstance(f.value, ast.Call) and call_name(f.value) == "super":
                    target = self.resolve_super_method(fn, f.attr)
                    if target is not None:
                        self._splice(self.summary(target), ev, line)
                    return
                if bp and bp.startswith("self."):
                    attr = bp.split(".")[1]
                    self._read_attr(fn, attr, ev, line)
                    if f.attr in MUTATOR_METHODS and bp.count(".") == 1:
                        ev.append(("m", attr, line))
                    return
                # ClassName.method(self, ...) explicit base call
                base = self.repo.resolve_expr(self.repo.module_of(fn), f.value) if bp else None
                if isinstance(base, ClassInfo) and e.args and path_of(e.args[0]) == "self":
                    r = base.lookup(f.attr)
                    if r is not None:
                        self._splice(self.summary(r[1]), ev, line)
                        return
                self._expr_events(fn, f.value, ev)
                return
            self._expr_events(fn, f, ev)
            return
        if isinstance(e, ast.Attribute):
            p = path_of(e)
            if p and p.startswith("self."):
                self._read_attr(fn, p.split(".")[1], ev, line)
                return
            self._expr_events(fn, e.value, ev)
            return
        if isinstance(e, (ast.Lambda, ast.FunctionDef, ast.AsyncFunctionDef)):
            # body runs when called; a lambda passed as an argument is assumed to be called by the callee
            if isinstance(e, ast.Lambda):
                self._expr_events(fn, e.body, ev)
            return
        for ch in ast.iter_child_nodes(e):
            if isinstance(ch, (ast.expr, ast.comprehension, ast.keyword, ast.slice if hasattr(ast, 'slice') else ast.expr)):
                self._expr_events(fn, ch, ev)
            elif isinstance(ch, ast.AST) and not isinstance(ch, (ast.expr_context, ast.operator, ast.unaryop, ast.cmpop, ast.boolop)):
                self._expr_events(fn, ch, ev)

    def _keys_of_loop_var(self, e) -> List[str]:
        """`for key in self._STATE_KEYS: setattr(self, key, ...)` -> the folded key set."""
        if not isinstance(e, ast.Name):
            return []
        from .index import parents
        for p in parents(e):
            if isinstance(p, ast.For) and isinstance(p.target, ast.Name) and p.target.id == e.id:
                ip = path_of(p.iter)
                if ip and ip.startswith("self.") and ip[5:] in self.key_sets:
                    return sorted(self.key_sets[ip[5:]])
            if isinstance(p, (ast.DictComp, ast.ListComp, ast.SetComp, ast.GeneratorExp)):
                for g in p.generators:
                    if isinstance(g.target, ast.Name) and g.target.id == e.id:
                        ip = path_of(g.iter)
                        if ip and ip.startswith("self.") and ip[5:] in self.key_sets:
                            return sorted(self.key_sets[ip[5:]])
            # `for key, value in state['state'].items(): if key in self._STATE_KEYS: setattr(self, key, value)`
            if isinstance(p, ast.If):
                t = p.test
                if isinstance(t, ast.Compare) and len(t.ops) == 1 and isinstance(t.ops[0], ast.In) \
                        and isinstance(t.left, ast.Name) and t.left.id == e.id:
                    ip = path_of(t.comparators[0])
                    if ip and ip.startswith("self.") and ip[5:] in self.key_sets:
                        return sorted(self.key_sets[ip[5:]])
        return []

    def _compute(self, fn) -> Summary:
        try:
            mod = self.repo.module_of(fn)
        except KeyError:
            return Summary()      # synthetic no-op (run-phase model of _ensure_initialized)
        self.repo.consulted[mod.rel] = mod.digest
        g = CFG(fn)
        s = Summary()
        events = {n.id: self._events(fn, n) for n in g.nodes}
        universe = set()
        for evs in events.values():
            for k, a, _ in evs:
                universe.add(a)
        TOP = frozenset(universe)
        must_in = {n.id: TOP for n in g.nodes}
        must_out = {n.id: TOP for n in g.nodes}
        must_in[g.entry.id] = frozenset()
        reach = g.reachable_from([g.entry.id])
        changed = True
        while changed:
            changed = False
            for n in g.nodes:
                if n.id not in reach:
                    continue
                if n.id != g.entry.id:
                    ps = [p for p, _ in g.pred[n.id] if p in reach]
                    inn = None
                    for p in ps:
                        inn = must_out[p] if inn is None else (inn & must_out[p])
                    inn = inn if inn is not None else frozenset()
                else:
                    inn = frozenset()
                cur = set(inn)
                for k, a, _ in events[n.id]:
                    if k == "W":
                        cur.add(a)
                out = frozenset(cur)
                if inn != must_in[n.id] or out != must_out[n.id]:
                    must_in[n.id], must_out[n.id] = inn, out
                    changed = True
        for n in g.nodes:
            if n.id not in reach:
                continue
            cur = set(must_in[n.id])
            for k, a, line in events[n.id]:
                where = (mod.rel, line)
                if k == "r":
                    s.reads.add(a)
                    if a not in cur:
                        s.ue.add(a)
                        s.add_site("ue", a, where)
                elif k == "r0":
                    s.reads.add(a)
                elif k in ("w", "W"):
                    s.may_w.add(a)
                    s.add_site("w", a, where)
                    if k == "W":
                        cur.add(a)
                elif k == "m":
                    s.mutates.add(a)
                    s.add_site("m", a, where)
        # must-writes at normal exit
        exits = [p for p, _ in g.pred[g.exit.id] if p in reach]
        mw = None
        for p in exits:
            mw = set(must_out[p]) if mw is None else (mw & must_out[p])
        s.must_w = mw or set()
        return s


def walk_no_nested_body(fn):
    """Nodes of fn's body including nested defs themselves (but not their bodies)."""
    stack = list(fn.body) if hasattr(fn, "body") and isinstance(fn.body, list) else []
    while stack:
        n = stack.pop()
        yield n
        if isinstance(n, (ast.FunctionDef, ast.AsyncFunctionDef, ast.ClassDef, ast.Lambda)):
            continue
        stack.extend(ast.iter_child_nodes(n))
