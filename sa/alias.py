"""May-alias / freshness analysis (D2) and in-place mutation summaries.

alias_roots(expr @ node) -> set of roots the value may be the same object as, or a NumPy view of:
   'param:<name>'  a parameter's object on entry,
   'self.<attr>'   the object held by that attribute on entry (or at the time of the read),
   'glob:<name>'   a module-level object.
An empty set means FRESH (constructor call, copy, arithmetic result, literal, opaque call result).
"""
from __future__ import annotations
import ast
from typing import Dict, List, Optional, Set, Tuple

from .cfg import CFG, Node, ReachingDefs, path_of
from .astutil import (MUTATOR_METHODS, COPY_METHODS, COPY_FUNCS, VIEW_METHODS, VIEW_FUNCS, INPLACE_FUNCS,
                      call_name, func_params, walk_no_nested)


def _all_targets(a):
    if isinstance(a, ast.Assign):
        return [t for T in a.targets for t in (T.elts if isinstance(T, (ast.Tuple, ast.List)) else [T])]
    if isinstance(a, (ast.AugAssign, ast.AnnAssign)):
        return [a.target]
    return []


_OVERWRITE = {"overwrite_a": 0, "overwrite_ab": 0, "overwrite_x": 0, "overwrite_b": 1}


def _is_view_subscript(sl: ast.expr) -> bool:
    """x[sl] is a view (basic slicing) rather than an element / fancy-index copy."""
    if isinstance(sl, ast.Slice):
        # bare x[:] is the list-copy idiom of this code base (tabled: treated as a copy)
        return not (sl.lower is None and sl.upper is None and sl.step is None)
    if isinstance(sl, ast.Constant) and sl.value is Ellipsis:
        return True
    if isinstance(sl, ast.Tuple):
        # mixed basic index: view if every component is a slice/ellipsis/integer-like scalar and at least one slice
        has_slice = any(isinstance(e, ast.Slice) or (isinstance(e, ast.Constant) and e.value is Ellipsis) for e in sl.elts)
        return has_slice
    return False


class FnAlias:
    def __init__(self, fn, self_attr_fresh: Optional[Set[str]] = None, method_resolver=None):
        self.fn = fn
        self.method_resolver = method_resolver      # name -> FunctionDef of a self-method (to follow `return self.<attr>`)
        self.cfg = CFG(fn)
        self.rd = ReachingDefs(self.cfg)
        self.params = set(func_params(fn)) if not isinstance(fn, ast.Lambda) else {a.arg for a in fn.args.args}
        self._memo: Dict[Tuple[int, str], Set[str]] = {}
        self._active: Set[Tuple[int, str]] = set()

    # ------------------------------------------------------------------
    def roots_of_path(self, node: Node, path: str) -> Set[str]:
        """Roots of the object bound to `path` (name or self.attr...) when control reaches `node`."""
        key = (node.id, path)
        if key in self._memo:
            return self._memo[key]
        if key in self._active:
            return set()
        self._active.add(key)
        out: Set[str] = set()
        base = path.split(".")[0]
        if "." in path and base != "self" and base not in self.params:
            # an attribute of an object held in a LOCAL (`v = getattr(self, k); v.keywords.update(..)`): the object is whatever the local is bound to
            base_defs = [d for d in self.rd.reaching(node, base) if self.cfg.nodes[d].kind != "entry"]
            direct = [d for d in self.rd.reaching(node, path) if self.cfg.nodes[d].kind != "entry"
                      and any(path_of(t) == path for t in _all_targets(self.cfg.nodes[d].ast))]
            if base_defs and not direct:
                out = {r + "." + path.split(".", 1)[1] for r in self.roots_of_path(node, base)}
                if out:
                    self._active.discard(key)
                    self._memo[key] = out
                    return out
                # a fresh local (e.g. a shallow copy, whose attributes still alias the original's): decided by the general rules below
        for d in self.rd.reaching(node, path):
            dn = self.cfg.nodes[d]
            if dn.kind == "entry":
                if "." in path:
                    if base == "self" or base in self.params:
                        out.add(path if base == "self" else f"param:{path}")
                    else:
                        out.add(f"glob:{path}")
                elif path in self.params:
                    out.add(f"param:{path}")
                else:
                    out.add(f"glob:{path}")
                continue
            out |= self._roots_of_def(dn, path)
        self._active.discard(key)
        self._memo[key] = out
        return out

    def _roots_of_def(self, dn: Node, path: str) -> Set[str]:
        a = dn.ast
        if isinstance(a, ast.Assign):
            for tgt in a.targets:
                r = self._match_target(tgt, a.value, path, dn)
                if r is not None:
                    return r
            return set()
        if isinstance(a, ast.AnnAssign) and a.value is not None:
            return self.roots(a.value, dn)
        if isinstance(a, ast.AugAssign):
            # x op= e : same object for mutable x (in place), so roots are those of x before
            p = path_of(a.target)
            if p == path:
                return self.roots_of_path(dn, path)
            # a write to a prefix (self.a op= ...) of a longer path
            return set()
        if dn.kind == "iter":
            # loop variable: element of the iterable (treated as view of it for arrays of arrays)
            return set()
        if dn.kind == "with":
            return set()
        return set()

    def _match_target(self, tgt, value, path, dn) -> Optional[Set[str]]:
        p = path_of(tgt)
        if p is not None and (p == path or path.startswith(p + ".")):
            if p == path:
                return self.roots(value, dn)
            # path is an attribute of the object assigned here. A *shallow* copy shares its attributes with the
            # original until they are rebound; any other call result is a fresh object with fresh attributes.
            src = shallow_copy_source(value)
            if src is not None:
                sp = path_of(src)
                if sp is not None:
                    return self.roots_of_path(dn, sp + path[len(p):])
                return set()
            if isinstance(value, (ast.Name, ast.Attribute)) and path_of(value) is not None:
                return self.roots_of_path(dn, path_of(value) + path[len(p):])
            return set()
        if isinstance(tgt, (ast.Tuple, ast.List)):
            if isinstance(value, (ast.Tuple, ast.List)) and len(value.elts) == len(tgt.elts):
                for t, v in zip(tgt.elts, value.elts):
                    r = self._match_target(t, v, path, dn)
                    if r is not None:
                        return r
                return None
            for t in tgt.elts:
                tp = path_of(t.value if isinstance(t, ast.Starred) else t)
                if tp == path:
                    # unpacked from a call / opaque iterable: elements assumed fresh unless it is a known passthrough
                    return self._roots_unpacked(value, dn)
        return None

    def _roots_unpacked(self, value, dn) -> Set[str]:
        if isinstance(value, ast.Call):
            return set()
        return self.roots(value, dn)

    # ------------------------------------------------------------------
    def roots(self, e: ast.expr, node: Node) -> Set[str]:
        if e is None:
            return set()
        if isinstance(e, ast.Name) or (isinstance(e, ast.Attribute) and path_of(e) is not None):
            p = path_of(e)
            if isinstance(e, ast.Attribute) and e.attr in ("T", "real", "imag", "flat", "base"):
                return self.roots(e.value, node)
            return self.roots_of_path(node, p)
        if isinstance(e, ast.Attribute):
            if e.attr in ("T", "real", "imag", "flat"):
                return self.roots(e.value, node)
            return set()
        if isinstance(e, ast.Subscript):
            if _is_view_subscript(e.slice):
                return self.roots(e.value, node)
            return set()
        if isinstance(e, ast.Call):
            cn = call_name(e)
            if isinstance(e.func, ast.Attribute):
                m = e.func.attr
                if m in COPY_METHODS:
                    return set()
                if m in VIEW_METHODS:
                    return self.roots(e.func.value, node)
            if cn in VIEW_FUNCS and e.args:
                return self.roots(e.args[0], node)
            if cn == "getattr" and len(e.args) >= 2:
                # getattr(o, name) hands out the object stored in an attribute of o: whatever o may be, plus an unknown attribute step
                return {r + ".<attr>" for r in self.roots(e.args[0], node)} or ({path_of(e.args[0]) + ".<attr>"} if path_of(e.args[0]) else set())
            if self.method_resolver is not None and cn and cn.startswith("self.") and cn.count(".") == 1:
                callee = self.method_resolver(cn[5:])
                if callee is not None and callee is not self.fn:
                    out = set()
                    for r in ast.walk(callee):
                        if isinstance(r, ast.Return) and r.value is not None:
                            p = path_of(r.value)
                            if p and p.startswith("self.") and p.count(".") == 1:
                                out.add(p)        # the method hands out a reference to an attribute of self
                    return out
            return set()
        if isinstance(e, ast.IfExp):
            return self.roots(e.body, node) | self.roots(e.orelse, node)
        if isinstance(e, ast.BoolOp):
            out = set()
            for v in e.values:
                out |= self.roots(v, node)
            return out
        if isinstance(e, ast.NamedExpr):
            return self.roots(e.value, node)
        if isinstance(e, ast.Starred):
            return self.roots(e.value, node)
        return set()   # literals, arithmetic, comparisons, comprehensions -> fresh

    # ------------------------------------------------------------------
    def inplace_ops(self) -> List[Tuple[Node, ast.AST, ast.expr, str]]:
        """(cfg node, offending ast, mutated base expression, kind) for every syntactic in-place operation."""
        out = []
        reach = self.cfg.reachable_from([self.cfg.entry.id])
        for n in self.cfg.nodes:
            a = n.ast
            if a is None or n.id not in reach or n.kind in ("except",):
                continue
            if isinstance(a, (ast.FunctionDef, ast.AsyncFunctionDef, ast.ClassDef)):
                continue
            roots_iter = [a] if n.kind not in ("iter", "with") else ([a.iter] if n.kind == "iter" else [it.context_expr for it in a.items])
            if isinstance(a, ast.Assign):
                for tgt in a.targets:
                    for t in _flatten_targets(tgt):
                        if isinstance(t, ast.Subscript):
                            out.append((n, a, t.value, "subscript-store"))
                        elif isinstance(t, ast.Attribute) and path_of(t) is not None and path_of(t).count(".") >= 1:
                            pass  # attribute rebinding is handled by the effect analysis
            elif isinstance(a, ast.AugAssign):
                if isinstance(a.target, ast.Subscript):
                    out.append((n, a, a.target.value, "subscript-augassign"))
                elif isinstance(a.target, (ast.Name, ast.Attribute)):
                    out.append((n, a, a.target, "augassign"))
            for r in roots_iter:
                for sub in walk_no_nested(r):
                    if isinstance(sub, ast.Call):
                        cn = call_name(sub)
                        if isinstance(sub.func, ast.Attribute) and sub.func.attr in MUTATOR_METHODS:
                            out.append((n, sub, sub.func.value, f"mutator:{sub.func.attr}"))
                        elif cn in INPLACE_FUNCS and sub.args:
                            out.append((n, sub, sub.args[0], f"inplace-func:{cn}"))
                        for kw in sub.keywords:
                            if kw.arg == "out":
                                out.append((n, sub, kw.value, "out="))
                            # SciPy's LAPACK wrappers: overwrite_a / overwrite_b = True let the routine factorise / solve inside the given array
                            elif kw.arg in _OVERWRITE and isinstance(kw.value, ast.Constant) and kw.value.value is True and len(sub.args) > _OVERWRITE[kw.arg]:
                                out.append((n, sub, sub.args[_OVERWRITE[kw.arg]], f"{kw.arg}=True"))
        return out

    def mutated_roots(self) -> List[Tuple[str, Node, ast.AST, str]]:
        res = []
        for n, a, base, kind in self.inplace_ops():
            if kind == "augassign":
                # x op= e mutates the object x is bound to *if it is mutable*: report only when x aliases a root
                p = path_of(base)
                roots = self.roots_of_path(n, p) if p else set()
                # the augmented assignment's own rebinding is not a def that reaches itself
            else:
                roots = self.roots(base, n)
            for r in sorted(roots):
                res.append((r, n, a, kind))
        return res


def shallow_copy_source(e) -> Optional[ast.expr]:
    """E if `e` is copy(E) / copy.copy(E) / E._make_copy(): a shallow copy whose attributes alias E's."""
    if isinstance(e, ast.Call):
        cn = call_name(e)
        if cn in ("copy", "copy.copy") and len(e.args) == 1:
            return e.args[0]
        if isinstance(e.func, ast.Attribute) and e.func.attr == "_make_copy" and not e.args:
            return e.func.value
    return None


def _flatten_targets(t):
    if isinstance(t, (ast.Tuple, ast.List)):
        for el in t.elts:
            yield from _flatten_targets(el)
    elif isinstance(t, ast.Starred):
        yield from _flatten_targets(t.value)
    else:
        yield t
