"""Thorough tier: mutation adequacy of the rules of one property.

Every mutant is applied to a scratch copy of /repo/cuqi under a fresh temporary directory (outside /repo and /verif), the
property's quick rules are run against that copy, and the copy is deleted. Mutant sources:
  - /verif/seeded/<id>/patch.diff      independent sub-agent changes (each breaks a property, keeps the test suite green)
  - /verif/mutants/revert-F*.diff      reverse of every `fix:` commit made to /repo (the original defect must be re-detected)
  - /verif/mutants/edits.json          small repository-specific edits (literal replacements), see DESIGN.md appendix
The table /verif/mutants/expected.json says which properties' checks are expected to report which mutant.
A mutant that cannot be applied to the current tree (the tree was edited) is skipped and listed as not applicable.
"""
from __future__ import annotations
import json, os, shutil, subprocess, sys, tempfile, time
from concurrent.futures import ProcessPoolExecutor
from pathlib import Path
from typing import Dict, List

from .report import VERIF

MUT = VERIF / "mutants"
SEEDED = VERIF / "seeded"


def _load_specs(prop: str) -> List[dict]:
    expected = json.loads((MUT / "expected.json").read_text())
    specs = []
    for mid, props in sorted(expected.items()):
        if prop not in props:
            continue
        if mid.startswith("seed:"):
            specs.append({"id": mid, "kind": "patch", "path": str(SEEDED / mid[5:] / "patch.diff"), "reverse": False})
        elif mid.startswith("revert:"):
            specs.append({"id": mid, "kind": "patch", "path": str(MUT / f"revert-{mid[7:]}.diff"), "reverse": True})
    edits = json.loads((MUT / "edits.json").read_text())
    for e in edits:
        if prop in e["expect"]:
            specs.append({**e, "id": "edit:" + e["id"], "kind": "edit"})
    return specs


def _run_one(args):
    spec, prop, root = args
    os.environ["VERIF_NO_EVIDENCE"] = "1"
    tmp = tempfile.mkdtemp(prefix="cuqimut.")
    try:
        shutil.copytree(os.path.join(root, "cuqi"), os.path.join(tmp, "cuqi"))
        if spec["kind"] == "patch":
            cmd = ["git", "apply", "--include=cuqi/*"] + (["-R"] if spec["reverse"] else []) + [spec["path"]]
            r = subprocess.run(cmd, cwd=tmp, capture_output=True, text=True)
            if r.returncode != 0:
                r = apply_rebased(spec["path"], spec["reverse"], tmp) or r
            if r.returncode != 0:
                return {"id": spec["id"], "applied": False, "why": r.stderr.strip()[:200]}
        else:
            p = os.path.join(tmp, spec["file"])
            src = open(p, newline="").read()
            if src.count(spec["old"]) != 1:
                return {"id": spec["id"], "applied": False, "why": f"pattern occurs {src.count(spec['old'])} times"}
            open(p, "w", newline="").write(src.replace(spec["old"], spec["new"]))
        import io, contextlib, importlib
        from .index import Repo, AnchorError
        from .report import Check
        buf = io.StringIO()
        out = {"id": spec["id"], "applied": True}
        with contextlib.redirect_stdout(buf), contextlib.redirect_stderr(buf):
            try:
                chk = Check(prop, "quick", tmp, 0)
                repo = Repo(tmp)
                mod = importlib.import_module(f"sa.props.{prop.lower()}")
                mod.run(chk, repo)
                bad = [o for o in chk.obligations if not o.ok and chk._known_entry(o) is None]
                out.update({"killed": bool(bad), "by": sorted({o.rule for o in bad}), "instances": [o.instance for o in bad][:3],
                            "outcome": "violation" if bad else ("analysis-error" if chk.unknowns else "silent")})
                if not bad and chk.unknowns:
                    out["why"] = "; ".join(f"{u.rule} {u.instance}" for u in chk.unknowns[:3])
            except AnchorError as e:
                bad = [o for o in chk.obligations if not o.ok and chk._known_entry(o) is None]
                if bad:     # violations established before the unrecognised construct are firm (same as report.finish(partial_error=...))
                    out.update({"killed": True, "by": sorted({o.rule for o in bad}), "instances": [o.instance for o in bad][:3], "outcome": "violation+analysis-error"})
                else:
                    out.update({"killed": False, "outcome": "analysis-error", "why": str(e)[:200]})
            except Exception as e:
                out.update({"killed": False, "outcome": "internal-error", "why": f"{type(e).__name__}: {e}"[:200]})
        return out
    finally:
        shutil.rmtree(tmp, ignore_errors=True)


def apply_rebased(path: str, reverse: bool, cwd: str):
    """A change made against an earlier commit may carry, as context or removed lines, text that a later fix: commit rewrote.
    mutants/rebase_map.json lists those line rewrites; the patch is retried with them applied to its context/removed lines."""
    mp = VERIF / "mutants" / "rebase_map.json"
    if not mp.exists():
        return None
    text = open(path).read()
    changed = False
    for m in json.loads(mp.read_text()):
        for pre in (" ", "-"):
            if pre + m["old"] in text:
                text = text.replace(pre + m["old"], pre + m["new"])
                changed = True
    if not changed:
        return None
    tmpf = os.path.join(cwd, "_rebased.diff")
    open(tmpf, "w").write(text)
    try:
        return subprocess.run(["git", "apply", "--include=cuqi/*"] + (["-R"] if reverse else []) + [tmpf], cwd=cwd, capture_output=True, text=True)
    finally:
        os.unlink(tmpf)


def run_mutants(chk, prop: str, root: str):
    specs = _load_specs(prop)
    t0 = time.time()
    results = []
    if specs:
        with ProcessPoolExecutor(max_workers=min(16, len(specs))) as ex:
            results = list(ex.map(_run_one, [(s, prop, root) for s in specs]))
    applied = [r for r in results if r.get("applied")]
    killed = [r for r in applied if r.get("killed")]
    survived = [r for r in applied if not r.get("killed")]
    for r in survived:
        print(f"MUTANT-SURVIVED property={prop} mutant={r['id']} outcome={r.get('outcome')} {r.get('why', '')}")
    for r in results:
        if not r.get("applied"):
            print(f"mutant not applicable on this tree: {r['id']} ({r.get('why', '')[:100]})")
    chk.extra["mutation_adequacy"] = {
        "mutants_expected_for_this_property": len(specs), "applied": len(applied), "killed": len(killed), "survived": [r["id"] for r in survived],
        "not_applicable": [r["id"] for r in results if not r.get("applied")],
        "table": results, "wall_s": round(time.time() - t0, 2),
        "note": "each mutant = one realistic change (sub-agent seeded change, reverse of a fix: commit, or a small repository-specific edit) applied to a "
                "scratch copy; killed = this property's rules report a violation that is not a known finding",
    }
    print(f"[{prop}] mutation adequacy: {len(killed)}/{len(applied)} applicable mutants reported ({len(specs) - len(applied)} not applicable) in {time.time() - t0:.1f}s")
