"""Semantics-preserving normal forms of a function, used so that rules decide *what the code computes* and not how it is spelled.

A behaviour-preserving refactoring (early return instead of else, De Morgan on a guard, a loop instead of a comprehension, part of a
method extracted into a private helper, a temporary introduced or removed) must not change a verdict. Every rule that looks for a
statement or an expression therefore looks at a *set of views* of the function; each view is obtained from the source by rewrites that
preserve the meaning of the function for every input:

  V0  the source as written
  V1  structural normal form
        * `if c: A` whose body always leaves the block (return / raise / continue / break), followed by R   ->  if c: A else: R
        * `if not c: A else: B`                                                                            ->  if c: B else: A
        * tests in negation normal form (De Morgan; `not a == b` -> `a != b`; `not a in b`; `not a is b`; `E == False`, `E is not True`
          -> `not E` and `E == True`, `E is True` -> `E` for E a comparison, boolean operation or a call of a predicate returning bool);
          ordering comparisons are NOT flipped (`not a < b` differs from `a >= b` for NaN)
        * accumulate loops  `x = []; for t in it: x.append(e)`  ->  `x = [e for t in it]`  (also with an `if` filter and for dicts)
  V2  V1 after inlining calls of private helpers (`self._name(...)`, module level `_name(...)`) whose returns are in tail position,
      as a statement, an assignment or a return; parameters are substituted, the helper's locals renamed apart; depth <= 2
  V3  V2 after forward substitution of single-assignment locals into their uses (the assignment is removed) when the substituted
      expression reads nothing that the function writes between definition and use (conservative: it reads only parameters that are
      never re-bound, other single-assignment locals, constants, and `self.<attr>` paths the function never stores to) and either has no
      call or is used once

A fact established on any view holds for the function, so a rule may combine facts from different views. The views never *remove*
behaviour: a statement that is wrong in the source is wrong in every view."""
from __future__ import annotations
import ast
import re
import copy
from typing import Dict, List, Optional, Sequence, Set, Tuple

from .astutil import unparse, call_name, func_params
from .cfg import path_of

PREDICATES = {"isinstance", "callable", "hasattr", "issubclass", "any", "all", "np.isnan", "np.isinf", "np.isfinite", "np.any", "np.all",
              "np.allclose", "np.array_equal", "spa.issparse", "issparse", "bool", "np.isscalar", "isnan", "isinf"}


# ----------------------------------------------------------------------------------------------------------------- cloning
def clone(n):
    if isinstance(n, ast.AST):
        new = n.__class__()
        for f in n._fields:
            if hasattr(n, f):
                setattr(new, f, clone(getattr(n, f)))
        for a in ("lineno", "col_offset", "end_lineno", "end_col_offset"):
            if hasattr(n, a):
                setattr(new, a, getattr(n, a))
        return new
    if isinstance(n, list):
        return [clone(x) for x in n]
    return n


def set_parents(root):
    for node in ast.walk(root):
        for ch in ast.iter_child_nodes(node):
            ch._parent = node
    return root


# ----------------------------------------------------------------------------------------------------------------- boolean normal form
def _is_boolish(e) -> bool:
    if isinstance(e, (ast.Compare, ast.BoolOp)):
        return True
    if isinstance(e, ast.UnaryOp) and isinstance(e.op, ast.Not):
        return True
    if isinstance(e, ast.Call):
        cn = call_name(e) or ""
        return cn in PREDICATES or cn.rsplit(".", 1)[-1] in ("isnan", "isinf", "isfinite", "issparse", "isinstance", "callable", "hasattr", "startswith", "endswith")
    return False


def _neg(e):
    """negation of a test, pushed inwards where that is exact"""
    if isinstance(e, ast.UnaryOp) and isinstance(e.op, ast.Not):
        return nnf(e.operand)
    if isinstance(e, ast.BoolOp):
        op = ast.And() if isinstance(e.op, ast.Or) else ast.Or()
        return ast.BoolOp(op=op, values=[_neg(v) for v in e.values])
    if isinstance(e, ast.Compare) and len(e.ops) == 1:
        flip = {ast.Eq: ast.NotEq, ast.NotEq: ast.Eq, ast.In: ast.NotIn, ast.NotIn: ast.In, ast.Is: ast.IsNot, ast.IsNot: ast.Is}
        t = type(e.ops[0])
        if t in flip:
            r = _truth_compare(ast.Compare(left=e.left, ops=[flip[t]()], comparators=e.comparators))
            return r
    return ast.UnaryOp(op=ast.Not(), operand=nnf(e))


def _truth_compare(e):
    """E == True / E is True -> E ; E == False / E is not True / E != True -> not E   (E boolean valued)"""
    if isinstance(e, ast.Compare) and len(e.ops) == 1 and isinstance(e.comparators[0], ast.Constant) and isinstance(e.comparators[0].value, bool) \
            and isinstance(e.ops[0], (ast.Eq, ast.NotEq, ast.Is, ast.IsNot)) and _is_boolish(e.left):
        val = e.comparators[0].value
        positive = isinstance(e.ops[0], (ast.Eq, ast.Is))
        if positive == val:
            return nnf(e.left)
        return _neg(e.left)
    return e


def nnf(e):
    if isinstance(e, ast.UnaryOp) and isinstance(e.op, ast.Not):
        return _neg(e.operand)
    if isinstance(e, ast.BoolOp):
        vals = []
        for v in e.values:
            v = nnf(v)
            if isinstance(v, ast.BoolOp) and type(v.op) is type(e.op):
                vals.extend(v.values)
            else:
                vals.append(v)
        return ast.BoolOp(op=e.op, values=vals)
    if isinstance(e, ast.Compare):
        e = _truth_compare(e)
        if isinstance(e, ast.Compare) and len(e.ops) == 1 and isinstance(e.ops[0], (ast.Eq, ast.NotEq)):
            l, r = e.left, e.comparators[0]
            # == and != are symmetric: constants to the right, otherwise ordered by source text
            if (isinstance(l, ast.Constant) and not isinstance(r, ast.Constant)) or \
                    (not isinstance(l, ast.Constant) and not isinstance(r, ast.Constant) and unparse(l) > unparse(r)):
                e = ast.Compare(left=r, ops=e.ops, comparators=[l])
        elif isinstance(e, ast.Compare) and len(e.ops) == 1 and isinstance(e.ops[0], (ast.Gt, ast.GtE)):
            # a > b  ->  b < a ; a >= b -> b <= a   (exact, also for NaN)
            e = ast.Compare(left=e.comparators[0], ops=[ast.Lt() if isinstance(e.ops[0], ast.Gt) else ast.LtE()], comparators=[e.left])
        return e
    return e


# ----------------------------------------------------------------------------------------------------------------- statement structure
def _leaves(stmts) -> bool:
    """the statement list cannot complete normally (ends in return / raise / continue / break on every path)"""
    if not stmts:
        return False
    s = stmts[-1]
    if isinstance(s, (ast.Return, ast.Raise, ast.Continue, ast.Break)):
        return True
    if isinstance(s, ast.If) and s.orelse:
        return _leaves(s.body) and _leaves(s.orelse)
    return False


def _const_truth(e):
    if isinstance(e, ast.Constant) and isinstance(e.value, bool):
        return e.value
    if isinstance(e, ast.Compare) and len(e.ops) == 1 and isinstance(e.left, ast.Constant) and isinstance(e.comparators[0], ast.Constant):
        a, b = e.left.value, e.comparators[0].value
        if isinstance(e.ops[0], ast.Is):
            return a is b if (a is None or b is None or isinstance(a, bool) or isinstance(b, bool)) else None
        if isinstance(e.ops[0], ast.IsNot):
            return a is not b if (a is None or b is None or isinstance(a, bool) or isinstance(b, bool)) else None
        if isinstance(e.ops[0], ast.Eq):
            return a == b
        if isinstance(e.ops[0], ast.NotEq):
            return a != b
    return None


def _bool_flag(s: ast.If):
    """if c: x = True else: x = False   ->   x = c   (c boolean valued; otherwise bool(c)); the mirrored form gives x = not c"""
    if len(s.body) == 1 and len(s.orelse) == 1 and isinstance(s.body[0], ast.Assign) and isinstance(s.orelse[0], ast.Assign):
        a, b = s.body[0], s.orelse[0]
        if len(a.targets) == 1 and len(b.targets) == 1 and isinstance(a.targets[0], ast.Name) and isinstance(b.targets[0], ast.Name) \
                and a.targets[0].id == b.targets[0].id and isinstance(a.value, ast.Constant) and isinstance(b.value, ast.Constant) \
                and isinstance(a.value.value, bool) and isinstance(b.value.value, bool) and a.value.value != b.value.value:
            c = s.test if a.value.value else _neg(s.test)
            if not _is_boolish(c):
                c = ast.Call(func=ast.Name(id="bool", ctx=ast.Load()), args=[c], keywords=[])
            new = ast.Assign(targets=[ast.Name(id=a.targets[0].id, ctx=ast.Store())], value=c)
            return ast.fix_missing_locations(ast.copy_location(new, s))
    return None


def _unbool(e):
    """bool(E) -> E for boolean valued E"""
    class T(ast.NodeTransformer):
        def visit_Call(self, n):
            self.generic_visit(n)
            if call_name(n) == "bool" and len(n.args) == 1 and not n.keywords and _is_boolish(n.args[0]):
                return n.args[0]
            return n
    return T().visit(e)


_CAPTURED: List[Set[str]] = [set()]


def _captured_names(stmts) -> Set[str]:
    """names read inside nested functions / lambdas / comprehensions... of a body (what a callee could observe of the locals)"""
    out: Set[str] = set()
    for s in stmts:
        for n in ast.walk(s):
            if isinstance(n, (ast.FunctionDef, ast.Lambda, ast.AsyncFunctionDef)):
                out |= {x.id for x in ast.walk(n) if isinstance(x, ast.Name)}
            elif isinstance(n, ast.Call) and call_name(n) in ("locals", "vars", "eval", "exec"):
                out |= {x.id for s2 in stmts for x in ast.walk(s2) if isinstance(x, ast.Name)}
    return out


def _norm_body(stmts: List[ast.stmt]) -> List[ast.stmt]:
    """_norm_block for a whole function body (records which locals are visible to closures)"""
    _CAPTURED.append(_captured_names(stmts))
    try:
        return _norm_block(stmts)
    finally:
        _CAPTURED.pop()


def _norm_block(stmts: List[ast.stmt]) -> List[ast.stmt]:
    out: List[ast.stmt] = []
    i = 0
    stmts = _loop_forms(list(stmts))
    while i < len(stmts):
        s = stmts[i]
        if isinstance(s, ast.If):
            s.test = nnf(s.test)
            cv = _const_truth(s.test)
            if cv is not None:
                # a test between constants (e.g. a default `None is not None` after a helper was inlined) selects its branch statically
                chosen = _norm_block(s.body if cv else s.orelse)
                stmts = stmts[:i] + chosen + stmts[i + 1:]
                continue
            s.body = _norm_block(s.body)
            s.orelse = _norm_block(s.orelse)
            rest = stmts[i + 1:]
            if not s.orelse and rest and _leaves(s.body):
                s.orelse = _norm_block(rest)
                stmts = stmts[:i + 1]
            while not s.orelse and len(s.body) == 1 and isinstance(s.body[0], ast.If) and not s.body[0].orelse:
                # `if a: if b: X` (no else on either) IS `if a and b: X` (b is evaluated only when a holds, in both spellings)
                inner = s.body[0]
                parts = (list(s.test.values) if isinstance(s.test, ast.BoolOp) and isinstance(s.test.op, ast.And) else [s.test]) + \
                        (list(inner.test.values) if isinstance(inner.test, ast.BoolOp) and isinstance(inner.test.op, ast.And) else [inner.test])
                s.test = ast.copy_location(ast.BoolOp(op=ast.And(), values=parts), s.test)
                s.body = inner.body
            while len(s.orelse) == 1 and isinstance(s.orelse[0], ast.If) and [ast.dump(x) for x in s.body] == [ast.dump(x) for x in s.orelse[0].body]:
                # `if a: X  elif b: X  else: Y` IS `if a or b: X  else: Y` (b is evaluated only when a fails, in both spellings)
                inner = s.orelse[0]
                parts = (list(s.test.values) if isinstance(s.test, ast.BoolOp) and isinstance(s.test.op, ast.Or) else [s.test]) + \
                        (list(inner.test.values) if isinstance(inner.test, ast.BoolOp) and isinstance(inner.test.op, ast.Or) else [inner.test])
                s.test = ast.copy_location(ast.BoolOp(op=ast.Or(), values=parts), s.test)
                s.orelse = inner.orelse
            if s.orelse and isinstance(s.test, ast.UnaryOp) and isinstance(s.test.op, ast.Not):
                s.test, s.body, s.orelse = s.test.operand, s.orelse, s.body
            elif s.orelse and isinstance(s.test, ast.Compare) and len(s.test.ops) == 1 and isinstance(s.test.ops[0], (ast.NotEq, ast.IsNot, ast.NotIn)):
                # `if a != b: X else: Y` is `if a == b: Y else: X` (two-branch statements are written on the positive comparison)
                pos = {ast.NotEq: ast.Eq, ast.IsNot: ast.Is, ast.NotIn: ast.In}[type(s.test.ops[0])]()
                s.test = ast.copy_location(ast.Compare(left=s.test.left, ops=[pos], comparators=s.test.comparators), s.test)
                s.body, s.orelse = s.orelse, s.body
            flag = _bool_flag(s)
            out.append(flag if flag is not None else s)
        elif isinstance(s, (ast.For, ast.While)):
            if isinstance(s, ast.While):
                s.test = nnf(s.test)
            s.body = _norm_block(s.body)
            s.orelse = _norm_block(s.orelse)
            out.append(s)
        elif isinstance(s, ast.With):
            s.body = _norm_block(s.body)
            out.append(s)
        elif isinstance(s, ast.Try):
            s.body = _norm_block(s.body)
            for h in s.handlers:
                h.body = _norm_block(h.body)
            s.orelse = _norm_block(s.orelse)
            s.finalbody = _norm_block(s.finalbody)
            out.append(s)
        else:
            # `t = a if c else b` / `return a if c else b` IS `if c: t = a  else: t = b` (value and test are evaluated before any target expression):
            # the statement form is the normal form, so that sibling-branch rules see both spellings alike
            v0 = getattr(s, "value", None)
            if isinstance(v0, ast.IfExp) and (isinstance(s, ast.Return) or (isinstance(s, ast.Assign) and len(s.targets) == 1) or isinstance(s, ast.AugAssign)):
                def mk(val):
                    c_ = clone(s)
                    c_.value = val
                    return c_
                new_if = ast.If(test=v0.test, body=[mk(v0.body)], orelse=[mk(v0.orelse)])
                ast.copy_location(new_if, s)
                stmts = stmts[:i] + [ast.fix_missing_locations(new_if)] + stmts[i + 1:]
                continue
            for f in ("value", "test"):
                v = getattr(s, f, None)
                if isinstance(v, ast.IfExp):
                    v.test = nnf(v.test)
            if isinstance(s, ast.Assign) and len(s.targets) == 1 and isinstance(s.targets[0], ast.Tuple) and isinstance(s.value, ast.Tuple) \
                    and len(s.targets[0].elts) == len(s.value.elts) and all(isinstance(t, ast.Name) for t in s.targets[0].elts):
                tn = {t.id for t in s.targets[0].elts}
                tl = [t.id for t in s.targets[0].elts]
                # sequential form a = e1; b = e2; ...: e_i is evaluated after a_0..a_{i-1} were stored, so no EARLIER target may occur in e_i (a target
                # may occur in its own value: `s = s[:, Nb:]`)
                seq_ok = not any(isinstance(x, ast.Name) and x.id in tl[:k_] for k_, v_ in enumerate(s.value.elts) for x in ast.walk(v_))
                if len(tn) == len(s.targets[0].elts) and seq_ok and not (tn & _CAPTURED[-1]):
                    # a, b = e1, e2 where the values do not read a or b and no closure of the function reads them (a call among the values cannot
                    # observe whether `a` was stored before or after it ran): the same as a = e1; b = e2
                    for t, v_ in zip(s.targets[0].elts, s.value.elts):
                        new = ast.Assign(targets=[ast.Name(id=t.id, ctx=ast.Store())], value=v_)
                        out.append(ast.fix_missing_locations(ast.copy_location(new, s)))
                    i += 1
                    continue
            if isinstance(s, ast.Assign):
                s.value = _unbool(s.value)
                if _is_boolish(s.value):
                    s.value = nnf(s.value)
            out.append(s)
        i += 1
    return _accumulate_loops(out)


def _names_loaded(node) -> Set[str]:
    return {n.id for n in ast.walk(node) if isinstance(n, ast.Name) and isinstance(n.ctx, ast.Load)}


def _stores_in(stmts) -> Set[str]:
    return {n.id for s in stmts for n in ast.walk(s) if isinstance(n, ast.Name) and isinstance(n.ctx, (ast.Store, ast.Del))}


def _simple_bound(e) -> bool:
    """an expression whose value a loop body cannot change without storing one of its names: constants, names, attribute paths, len(name/path),
    and + - * // of those"""
    if isinstance(e, ast.Constant):
        return True
    if path_of(e) is not None:
        return True
    if isinstance(e, ast.Call) and call_name(e) in ("len", "int") and len(e.args) == 1 and not e.keywords:
        return _simple_bound(e.args[0])
    if isinstance(e, ast.BinOp) and isinstance(e.op, (ast.Add, ast.Sub, ast.Mult, ast.FloorDiv)):
        return _simple_bound(e.left) and _simple_bound(e.right)
    return False


def _loop_forms(stmts: List[ast.stmt]) -> List[ast.stmt]:
    """two loop spellings brought to the form the rest of the code base uses:
       i = a; while i < b: BODY; i += 1        ->  for i in range(a, b): BODY         (i not read afterwards, b not changed by BODY, no `continue`)
       for k in X: if T: raise E               ->  if not all((not T) for k in X): raise E   (E does not mention k)"""
    out: List[ast.stmt] = []
    i = 0
    while i < len(stmts):
        s = stmts[i]
        nxt = stmts[i + 1] if i + 1 < len(stmts) else None
        if isinstance(s, ast.Assign) and len(s.targets) == 1 and isinstance(s.targets[0], ast.Name) and isinstance(nxt, ast.While) and not nxt.orelse \
                and isinstance(nxt.test, ast.Compare) and len(nxt.test.ops) == 1 and isinstance(nxt.test.ops[0], ast.Lt) \
                and isinstance(nxt.test.left, ast.Name) and nxt.test.left.id == s.targets[0].id and nxt.body:
            v = s.targets[0].id
            last = nxt.body[-1]
            incr = (isinstance(last, ast.AugAssign) and isinstance(last.op, ast.Add) and path_of(last.target) == v and isinstance(last.value, ast.Constant) and last.value.value == 1) or \
                   (isinstance(last, ast.Assign) and len(last.targets) == 1 and path_of(last.targets[0]) == v and isinstance(last.value, ast.BinOp)
                    and isinstance(last.value.op, ast.Add) and {path_of(last.value.left), getattr(last.value.right, "value", None)} == {v, 1})
            body = nxt.body[:-1]
            bound = nxt.test.comparators[0]
            rest = stmts[i + 2:]
            ok = incr and body and v not in _stores_in(body) and not any(isinstance(x, ast.Continue) for b_ in body for x in ast.walk(b_)) \
                and _simple_bound(bound) and _simple_bound(s.value) \
                and not ({n.id for n in ast.walk(bound) if isinstance(n, ast.Name)} & _stores_in(body)) \
                and not any(isinstance(n, ast.Name) and n.id == v and isinstance(n.ctx, ast.Load) for r_ in rest for n in ast.walk(r_))
            if ok:
                args = [bound] if (isinstance(s.value, ast.Constant) and s.value.value == 0) else [s.value, bound]
                new = ast.For(target=ast.Name(id=v, ctx=ast.Store()), iter=ast.Call(func=ast.Name(id="range", ctx=ast.Load()), args=args, keywords=[]),
                              body=body, orelse=[])
                out.append(ast.fix_missing_locations(ast.copy_location(new, nxt)))
                i += 2
                continue
        if isinstance(s, ast.For) and not s.orelse and len(s.body) == 1 and isinstance(s.body[0], ast.If) and not s.body[0].orelse \
                and len(s.body[0].body) == 1 and isinstance(s.body[0].body[0], ast.Raise):
            tg = {n.id for n in ast.walk(s.target) if isinstance(n, ast.Name)}
            rz = s.body[0].body[0]
            if not any(isinstance(n, ast.Name) and n.id in tg for n in ast.walk(rz)):
                gen = ast.comprehension(target=s.target, iter=s.iter, ifs=[], is_async=0)
                allc = ast.Call(func=ast.Name(id="all", ctx=ast.Load()), args=[ast.GeneratorExp(elt=nnf(_neg(s.body[0].test)), generators=[gen])], keywords=[])
                new = ast.If(test=ast.UnaryOp(op=ast.Not(), operand=allc), body=[rz], orelse=[])
                out.append(ast.fix_missing_locations(ast.copy_location(new, s)))
                i += 1
                continue
        out.append(s)
        i += 1
    # for k in range(len(S)): e = S[k]; BODY   ->  for e in S: BODY     (k not used elsewhere in BODY, S not changed by BODY)
    for j, s in enumerate(out):
        if isinstance(s, ast.For) and not s.orelse and isinstance(s.target, ast.Name) and isinstance(s.iter, ast.Call) and call_name(s.iter) == "range" \
                and len(s.iter.args) == 1 and isinstance(s.iter.args[0], ast.Call) and call_name(s.iter.args[0]) == "len" and len(s.iter.args[0].args) == 1 \
                and path_of(s.iter.args[0].args[0]) is not None and len(s.body) >= 2:
            k, S = s.target.id, s.iter.args[0].args[0]
            f0 = s.body[0]
            if isinstance(f0, ast.Assign) and len(f0.targets) == 1 and isinstance(f0.targets[0], ast.Name) and isinstance(f0.value, ast.Subscript) \
                    and path_of(f0.value.value) == path_of(S) and path_of(f0.value.slice) == k:
                rest = s.body[1:]
                uses_k = any(isinstance(n, ast.Name) and n.id == k for r_ in rest for n in ast.walk(r_))
                root = path_of(S).split(".")[0]
                if not uses_k and root not in _stores_in(rest) and f0.targets[0].id not in _stores_in(rest):
                    out[j] = ast.fix_missing_locations(ast.copy_location(ast.For(target=ast.Name(id=f0.targets[0].id, ctx=ast.Store()), iter=S, body=rest, orelse=[]), s))
    return out


def _accumulate_loops(stmts: List[ast.stmt]) -> List[ast.stmt]:
    out: List[ast.stmt] = []
    i = 0
    while i < len(stmts):
        s = stmts[i]
        nxt = stmts[i + 1] if i + 1 < len(stmts) else None
        done = False
        if isinstance(s, ast.Assign) and len(s.targets) == 1 and isinstance(s.targets[0], ast.Name) and isinstance(nxt, ast.For) and not nxt.orelse:
            x = s.targets[0].id
            empty_list = isinstance(s.value, ast.List) and not s.value.elts
            empty_dict = (isinstance(s.value, ast.Dict) and not s.value.keys) or (isinstance(s.value, ast.Call) and call_name(s.value) == "dict" and not s.value.args and not s.value.keywords)
            body = nxt.body
            cond = None
            if len(body) == 1 and isinstance(body[0], ast.If) and not body[0].orelse:
                cond, body = body[0].test, body[0].body
            elif len(body) == 1 and isinstance(body[0], ast.If) and body[0].orelse and len(body[0].body) == 1 and isinstance(body[0].body[0], ast.Continue):
                cond, body = _neg(body[0].test), body[0].orelse
            elif len(body) == 2 and isinstance(body[0], ast.If) and not body[0].orelse and len(body[0].body) == 1 and isinstance(body[0].body[0], ast.Continue):
                cond, body = _neg(body[0].test), body[1:]
            if len(body) == 1 and x not in _names_loaded(nxt.iter) and (cond is None or x not in _names_loaded(cond)):
                b = body[0]
                gen = ast.comprehension(target=nxt.target, iter=nxt.iter, ifs=[cond] if cond is not None else [], is_async=0)
                if empty_list and isinstance(b, ast.Expr) and isinstance(b.value, ast.Call) and call_name(b.value) == f"{x}.append" and len(b.value.args) == 1 \
                        and x not in _names_loaded(b.value.args[0]):
                    new = ast.Assign(targets=[ast.Name(id=x, ctx=ast.Store())], value=ast.ListComp(elt=b.value.args[0], generators=[gen]))
                    ast.copy_location(new, s)
                    out.append(ast.fix_missing_locations(new))
                    done = True
                elif empty_dict and isinstance(b, ast.Assign) and len(b.targets) == 1 and isinstance(b.targets[0], ast.Subscript) \
                        and path_of(b.targets[0].value) == x and x not in _names_loaded(b.value) and x not in _names_loaded(b.targets[0].slice):
                    new = ast.Assign(targets=[ast.Name(id=x, ctx=ast.Store())], value=ast.DictComp(key=b.targets[0].slice, value=b.value, generators=[gen]))
                    ast.copy_location(new, s)
                    out.append(ast.fix_missing_locations(new))
                    done = True
                elif isinstance(s.value, ast.Constant) and isinstance(s.value.value, (int, float)) and not isinstance(s.value.value, bool) and cond is None:
                    # x = 0; for t in I: x = x + e  (or x += e)   ==   x = sum(e for t in I)   [sum starts from 0 and adds on the right]
                    e = None
                    if isinstance(b, ast.AugAssign) and isinstance(b.op, ast.Add) and path_of(b.target) == x:
                        e = b.value
                    elif isinstance(b, ast.Assign) and len(b.targets) == 1 and path_of(b.targets[0]) == x and isinstance(b.value, ast.BinOp) \
                            and isinstance(b.value.op, ast.Add) and path_of(b.value.left) == x:
                        e = b.value.right
                    if e is not None and x not in _names_loaded(e):
                        args = [ast.GeneratorExp(elt=e, generators=[gen])]
                        if s.value.value != 0:
                            args.append(s.value)
                        new = ast.Assign(targets=[ast.Name(id=x, ctx=ast.Store())], value=ast.Call(func=ast.Name(id="sum", ctx=ast.Load()), args=args, keywords=[]))
                        ast.copy_location(new, s)
                        out.append(ast.fix_missing_locations(new))
                        done = True
        if done:
            i += 2
        else:
            out.append(s)
            i += 1
    return out


_counter = [0]


class _AlphaComp(ast.NodeTransformer):
    """comprehension-bound variables are renamed _k0, _k1, ... (per comprehension, outermost first): their names carry no meaning"""

    def __init__(self, unique: bool):
        self.depth = 0
        self.unique = unique

    def _do(self, n):
        names = []
        for g in n.generators:
            for t in ast.walk(g.target):
                if isinstance(t, ast.Name) and t.id not in names:
                    names.append(t.id)
        if self.unique:
            m = {}
            for nm in names:
                _counter[0] += 1
                m[nm] = f"_u{_counter[0]}"
        else:
            m = {nm: f"_k{self.depth + i}" for i, nm in enumerate(names)}
        self.depth += len(names)
        n = _Rename(m).visit(n)
        self.generic_visit(n)
        self.depth -= len(names)
        return n

    visit_ListComp = visit_SetComp = visit_GeneratorExp = visit_DictComp = _do


class _SymOrder(ast.NodeTransformer):
    """== and != everywhere (also in comprehension filters): operands ordered by source text, constants to the right; done after the
    comprehension variables have their canonical names so that the order does not depend on how a variable was called"""

    def visit_Compare(self, n):
        self.generic_visit(n)
        if len(n.ops) == 1 and isinstance(n.ops[0], (ast.Eq, ast.NotEq)):
            l, r = n.left, n.comparators[0]
            if (isinstance(l, ast.Constant) and not isinstance(r, ast.Constant)) or \
                    (not isinstance(l, ast.Constant) and not isinstance(r, ast.Constant) and unparse(l) > unparse(r)):
                return ast.copy_location(ast.Compare(left=r, ops=n.ops, comparators=[l]), n)
        if len(n.ops) == 1 and isinstance(n.ops[0], (ast.Gt, ast.GtE)):
            # a > b -> b < a ; a >= b -> b <= a  (exact, also element-wise and for NaN)
            return ast.copy_location(ast.Compare(left=n.comparators[0], ops=[ast.Lt() if isinstance(n.ops[0], ast.Gt) else ast.LtE()], comparators=[n.left]), n)
        return n


class _TupleConcat(ast.NodeTransformer):
    """(a, b) + (c,)  ->  (a, b, c)   for tuple literals"""

    def visit_BinOp(self, n):
        self.generic_visit(n)
        if isinstance(n.op, ast.Add) and isinstance(n.left, ast.Tuple) and isinstance(n.right, ast.Tuple):
            return ast.copy_location(ast.Tuple(elts=n.left.elts + n.right.elts, ctx=ast.Load()), n)
        return n


class _ReduceOverList(ast.NodeTransformer):
    """all([e for ..]) / any([e for ..])  ->  all(e for ..) / any(e for ..)   (the list is only iterated)"""

    def visit_Call(self, n):
        self.generic_visit(n)
        if isinstance(n.func, ast.Name) and n.func.id in ("all", "any") and len(n.args) == 1 and not n.keywords and isinstance(n.args[0], ast.ListComp):
            n.args[0] = ast.copy_location(ast.GeneratorExp(elt=n.args[0].elt, generators=n.args[0].generators), n.args[0])
        return n


class _IdentityComp(ast.NodeTransformer):
    """{k: v for k, v in X} -> dict(X) ;  [a for a in X] -> list(X)   (comprehensions that only copy)"""

    def visit_DictComp(self, n):
        self.generic_visit(n)
        if len(n.generators) == 1 and not n.generators[0].ifs and isinstance(n.generators[0].target, ast.Tuple) and len(n.generators[0].target.elts) == 2:
            a, b = n.generators[0].target.elts
            if isinstance(a, ast.Name) and isinstance(b, ast.Name) and path_of(n.key) == a.id and path_of(n.value) == b.id:
                return ast.copy_location(ast.Call(func=ast.Name(id="dict", ctx=ast.Load()), args=[n.generators[0].iter], keywords=[]), n)
        return n

    def visit_ListComp(self, n):
        self.generic_visit(n)
        if len(n.generators) == 1 and not n.generators[0].ifs and isinstance(n.generators[0].target, ast.Name) and path_of(n.elt) == n.generators[0].target.id:
            return ast.copy_location(ast.Call(func=ast.Name(id="list", ctx=ast.Load()), args=[n.generators[0].iter], keywords=[]), n)
        return n


class _StarDictDisplay(ast.NodeTransformer):
    """f(a, **{'k': v}) is f(a, k=v); f(a, **{}) is f(a) (a dict display with literal identifier keys spliced into a call)"""

    def visit_Call(self, n):
        self.generic_visit(n)
        new_kw, changed = [], False
        for k in n.keywords:
            if k.arg is None and isinstance(k.value, ast.Dict) and all(isinstance(x, ast.Constant) and isinstance(x.value, str) and x.value.isidentifier() for x in k.value.keys):
                new_kw.extend(ast.keyword(arg=x.value, value=v) for x, v in zip(k.value.keys, k.value.values))
                changed = True
            else:
                new_kw.append(k)
        if changed:
            n.keywords = new_kw
        # f(a, *(x, y)) is f(a, x, y); f(a, *()) is f(a)
        if any(isinstance(x, ast.Starred) and isinstance(x.value, (ast.Tuple, ast.List)) for x in n.args):
            new_args = []
            for x in n.args:
                if isinstance(x, ast.Starred) and isinstance(x.value, (ast.Tuple, ast.List)):
                    new_args.extend(x.value.elts)
                else:
                    new_args.append(x)
            n.args = new_args
        return n


class _KwargKeys(ast.NodeTransformer):
    """for the ** parameter K of a function (always a dict): set(list(K.keys())), set(K.keys()), set(list(K)) -> set(K); `x in K.keys()` -> `x in K`"""

    def __init__(self, names):
        self.names = names

    def _is_keys(self, e):
        if isinstance(e, ast.Call) and isinstance(e.func, ast.Attribute) and e.func.attr == "keys" and not e.args and path_of(e.func.value) in self.names:
            return e.func.value
        if isinstance(e, ast.Call) and call_name(e) == "list" and len(e.args) == 1:
            inner = self._is_keys(e.args[0])
            if inner is not None:
                return inner
            if path_of(e.args[0]) in self.names:
                return e.args[0]
        return None

    def visit_Call(self, n):
        self.generic_visit(n)
        if call_name(n) == "set" and len(n.args) == 1 and not n.keywords:
            k = self._is_keys(n.args[0])
            if k is not None:
                return ast.copy_location(ast.Call(func=n.func, args=[k], keywords=[]), n)
        return n

    def visit_Compare(self, n):
        self.generic_visit(n)
        if len(n.ops) == 1 and isinstance(n.ops[0], (ast.In, ast.NotIn)):
            k = self._is_keys(n.comparators[0])
            if k is not None:
                return ast.copy_location(ast.Compare(left=n.left, ops=n.ops, comparators=[k]), n)
        return n


def alpha(f):
    """two passes: first every comprehension variable gets a globally unique name (no capture possible), then the canonical _k<depth>"""
    f = _AlphaComp(True).visit(f)
    f = _AlphaComp(False).visit(f)
    kw = {a.kwarg.arg for a in [getattr(f, "args", None)] if a is not None and a.kwarg}
    if kw:
        f = _KwargKeys(kw).visit(f)
    f = _TupleConcat().visit(f)
    f = _StarDictDisplay().visit(f)
    f = _IdentityComp().visit(f)
    f = _ReduceOverList().visit(f)
    return _SymOrder().visit(f)


def structural(fn):
    """V1"""
    f = clone(fn)
    f.body = _norm_body(f.body)
    # falling off the end returns None: a trailing `return` / `return None` of the function body says nothing
    while len(f.body) > 1 and isinstance(f.body[-1], ast.Return) and (f.body[-1].value is None or (isinstance(f.body[-1].value, ast.Constant) and f.body[-1].value.value is None)):
        f.body = f.body[:-1]
    f = alpha(f)
    return set_parents(ast.fix_missing_locations(f))


# ----------------------------------------------------------------------------------------------------------------- helper inlining
class _Rename(ast.NodeTransformer):
    def __init__(self, m: Dict[str, ast.expr]):
        self.m = m

    def visit_Name(self, n):
        if n.id in self.m:
            r = self.m[n.id]
            if isinstance(r, str):
                return ast.copy_location(ast.Name(id=r, ctx=n.ctx), n)
            if isinstance(n.ctx, ast.Load):
                return clone(r)
        return n

    def visit_Lambda(self, n):
        shadow = {a.arg for a in n.args.args}
        saved = self.m
        self.m = {k: v for k, v in self.m.items() if k not in shadow}
        n.body = self.visit(n.body)
        self.m = saved
        return n


def _tail_returns_only(stmts) -> bool:
    """every Return of the helper is the last statement of its (nested if/else) block chain"""
    def ok(block, tail: bool) -> bool:
        for i, s in enumerate(block):
            last = tail and i == len(block) - 1
            if isinstance(s, ast.Return):
                if not last:
                    return False
            elif isinstance(s, ast.If):
                if not ok(s.body, last) or not ok(s.orelse, last):
                    return False
            elif isinstance(s, (ast.For, ast.While, ast.With, ast.Try)):
                if any(isinstance(n, ast.Return) for n in ast.walk(s)):
                    return False
            elif isinstance(s, (ast.FunctionDef, ast.ClassDef)):
                return False
        return True
    return ok(stmts, True)


def _replace_tail_returns(block, make):
    out = []
    for s in block:
        if isinstance(s, ast.Return):
            r = make(s.value if s.value is not None else ast.Constant(value=None))
            if r is not None:
                out.append(ast.copy_location(r, s))
        elif isinstance(s, ast.If):
            s.body = _replace_tail_returns(s.body, make) or [ast.copy_location(ast.Pass(), s)]
            s.orelse = _replace_tail_returns(s.orelse, make)
            out.append(s)
        else:
            out.append(s)
    return out


class Resolver:
    """finds the definition of a private helper called from a function of class `ci` (or of module `rel`)"""

    def __init__(self, repo, ci=None, rel=None, keep=frozenset()):
        self.repo, self.ci = repo, ci
        self.rel = rel or (ci.module.rel if ci is not None else None)
        self.keep = keep          # helpers that a rule is about: never inlined
        self.local_defs: Dict[str, ast.FunctionDef] = {}

    def set_local_defs(self, fn):
        """nested `def h(...)` at the top level of fn's body, bound exactly once and never re-bound: calling h(...) later in the same body runs its
        statements in the enclosing scope's environment (free variables are the enclosing function's), so the call can be inlined like a helper"""
        self.local_defs = {}
        stored: Dict[str, int] = {}
        for n in ast.walk(fn):
            if isinstance(n, ast.Name) and isinstance(n.ctx, (ast.Store, ast.Del)):
                stored[n.id] = stored.get(n.id, 0) + 1
            elif isinstance(n, (ast.FunctionDef, ast.ClassDef)) and n is not fn:
                stored[n.name] = stored.get(n.name, 0) + 1
        def blocks(node):
            for fld in ("body", "orelse", "finalbody"):
                blk = getattr(node, fld, None)
                if isinstance(blk, list) and blk and isinstance(blk[0], ast.stmt):
                    yield blk
                    for st in blk:
                        if not isinstance(st, (ast.FunctionDef, ast.ClassDef, ast.AsyncFunctionDef)):
                            yield from blocks(st)
            for h in getattr(node, "handlers", []) or []:
                yield from blocks(h)
        for blk in blocks(fn):
            for i, s in enumerate(blk):
                if isinstance(s, ast.FunctionDef) and not s.decorator_list and stored.get(s.name, 0) == 1 \
                        and not any(isinstance(x, (ast.Nonlocal, ast.Global, ast.Yield, ast.YieldFrom)) for x in ast.walk(s)):
                    # the closure must not be handed out (stored, passed, returned): only called
                    uses = [x for x in ast.walk(fn) if isinstance(x, ast.Name) and x.id == s.name and isinstance(x.ctx, ast.Load)]
                    called = [x.func for x in ast.walk(fn) if isinstance(x, ast.Call) and isinstance(x.func, ast.Name) and x.func.id == s.name]
                    # a def inside a loop / branch is bound each time that block runs: its calls are inlined when they all sit in the statements
                    # that follow it in the same block (the closure called is the one just bound, its free variables are read at the call)
                    after = {id(x) for st in blk[i + 1:] for x in ast.walk(st)}
                    if uses and len(uses) == len(called) and (blk is fn.body or all(id(x) in after for x in uses)):
                        self.local_defs[s.name] = s

    def lookup(self, call: ast.Call):
        cn = call_name(call)
        if not cn or cn.rsplit(".", 1)[-1] in self.keep:
            return None
        if cn in self.local_defs:
            return self.local_defs[cn], 0
        if cn.startswith("self.") and cn.count(".") == 1 and self.ci is not None:
            name = cn[5:]
            if not name.startswith("_") or name.startswith("__"):
                return None
            r = self.ci.lookup(name) if hasattr(self.ci, "lookup") else None
            if r is None:
                return None
            fn = r[1]
            is_static = any(unparse(d) in ("staticmethod",) for d in fn.decorator_list)
            if any(unparse(d) not in ("staticmethod",) for d in fn.decorator_list):
                return None
            return fn, (0 if is_static else 1)
        if "." not in cn and cn.startswith("_") and not cn.startswith("__") and self.rel is not None:
            try:
                fn = self.repo.func(f"{self.rel}:{cn}")
            except Exception:
                return None
            if isinstance(fn, ast.FunctionDef) and not fn.decorator_list:
                return fn, 0
        if cn.count(".") == 1 and self.ci is not None and cn.split(".")[0] in (self.ci.name, "type(self)") :
            name = cn.split(".")[1]
            r = self.ci.lookup(name) if name.startswith("_") and not name.startswith("__") else None
            if r is not None and any(unparse(d) == "staticmethod" for d in r[1].decorator_list):
                return r[1], 0
        return None




def _inline_call(call: ast.Call, helper: ast.FunctionDef, skip: int, make_tail, value_used: bool):
    """statement list equivalent to running `helper` with the call's arguments; `make_tail(expr)` turns a returned expression into the
    statement that consumes it. None if the call shape is not supported."""
    helper = _strip_error_translation(helper)        # handlers that only re-raise translate errors; the value is that of the try body
    a = helper.args
    star_kw = [k for k in call.keywords if k.arg is None]
    star_pos = [x for x in call.args if isinstance(x, ast.Starred)]
    extra_binding: Dict[str, ast.expr] = {}
    if a.posonlyargs:
        return None
    # *args / **kwargs are supported when they are passed straight through (`helper(..., *args, **kwargs)` into `def helper(..., *args, **kwargs)`)
    if star_kw:
        if not a.kwarg or len(star_kw) != 1:
            return None
        extra_binding[a.kwarg.arg] = star_kw[0].value
    elif a.kwarg:
        extra_binding[a.kwarg.arg] = ast.Dict(keys=[], values=[])
    if star_pos:
        if not a.vararg or len(star_pos) != 1 or call.args[-1] is not star_pos[0]:
            return None
        extra_binding[a.vararg.arg] = star_pos[0].value
    elif a.vararg:
        extra_binding[a.vararg.arg] = ast.Tuple(elts=[], ctx=ast.Load())
    call = ast.Call(func=call.func, args=[x for x in call.args if not isinstance(x, ast.Starred)], keywords=[k for k in call.keywords if k.arg is not None])
    allp = [x.arg for x in a.args]
    params = allp[skip:]
    defmap = {allp[len(allp) - len(a.defaults) + i]: d for i, d in enumerate(a.defaults)}
    for k, d in zip(a.kwonlyargs, a.kw_defaults):
        params.append(k.arg)
        if d is not None:
            defmap[k.arg] = d
    if len(call.args) > len(allp) - skip:
        return None
    binding: Dict[str, ast.expr] = dict(zip(params, call.args))
    surplus = []
    for k in call.keywords:
        if k.arg in binding:
            return None
        if k.arg not in params:
            # a keyword the helper does not name is collected by its **kwargs (only when the call passes no **mapping of its own)
            if a.kwarg and not star_kw:
                surplus.append(k)
                continue
            return None
        binding[k.arg] = k.value
    if surplus:
        extra_binding[a.kwarg.arg] = ast.Dict(keys=[ast.Constant(k.arg) for k in surplus], values=[k.value for k in surplus])
    for p_ in params:
        if p_ not in binding:
            if p_ not in defmap:
                return None
            binding[p_] = defmap[p_]
    binding.update(extra_binding)
    body = [s for s in clone(helper.body) if not (isinstance(s, ast.Expr) and isinstance(s.value, ast.Constant) and isinstance(s.value.value, str))]
    body = _norm_body(body)
    if not _tail_returns_only(body):
        return None
    if value_used and not _leaves(body):
        return None                    # a path falls off the end (implicit None) while the value is consumed
    _counter[0] += 1
    tag = f"__h{_counter[0]}"
    stored: Set[str] = set()
    for s_ in body:
        for n in ast.walk(s_):
            if isinstance(n, ast.Name) and isinstance(n.ctx, (ast.Store, ast.Del)):
                stored.add(n.id)
            elif isinstance(n, (ast.Global, ast.Nonlocal, ast.FunctionDef, ast.ClassDef)):
                return None
    pre: List[ast.stmt] = []
    m: Dict[str, object] = {}
    for p_, v in binding.items():
        simple = isinstance(v, ast.Constant) or path_of(v) is not None
        uses = sum(1 for s_ in body for n in ast.walk(s_) if isinstance(n, ast.Name) and n.id == p_ and isinstance(n.ctx, ast.Load))
        if p_ in stored or (not simple and uses > 1):
            tmp = p_ + tag
            pre.append(ast.Assign(targets=[ast.Name(id=tmp, ctx=ast.Store())], value=clone(v)))
            m[p_] = tmp
        else:
            m[p_] = v
    for nm in stored:
        if nm not in binding:
            m[nm] = nm + tag
    if skip == 1 and allp[0] != "self":
        m[allp[0]] = "self"
    body = [_Rename(m).visit(s_) for s_ in body]
    body = _replace_tail_returns(body, make_tail)
    out = pre + body
    for s_ in out:
        ast.copy_location(s_, call)
        ast.fix_missing_locations(s_)
    return out


_single_expr_cache: Dict[int, object] = {}


def _strip_error_translation(helper):
    """the VALUE of a helper whose body is `try: <body> except E: raise ...` (every handler only raises, no else / finally) is the value of <body>: the
    handlers translate an exception into another one and never produce a value.  Locals that only the handlers read (a prepared message) are dropped."""
    h = clone(helper)
    changed = False
    new_body = []
    for st in h.body:
        if isinstance(st, ast.Try) and not st.orelse and not st.finalbody and st.handlers and \
                all(hd.body and all(isinstance(x, (ast.Raise, ast.Pass)) for x in hd.body) and any(isinstance(x, ast.Raise) for x in hd.body) for hd in st.handlers):
            new_body.extend(st.body)
            changed = True
        else:
            new_body.append(st)
    if not changed:
        return helper
    h.body = new_body
    # drop call-free bindings of names that are no longer read
    while True:
        read = {n.id for n in ast.walk(h) if isinstance(n, ast.Name) and isinstance(n.ctx, ast.Load)}
        keep = [st for st in h.body if not (isinstance(st, ast.Assign) and len(st.targets) == 1 and isinstance(st.targets[0], ast.Name)
                                            and st.targets[0].id not in read and not any(isinstance(c, ast.Call) for c in ast.walk(st.value)))]
        if len(keep) == len(h.body):
            break
        h.body = keep
    return ast.fix_missing_locations(h)


def _single_expr(helper: ast.FunctionDef):
    """the helper as one expression of its parameters, if its normal form is a single `return <expr>`"""
    k = id(helper)
    if k not in _single_expr_cache:
        r = None
        a = helper.args
        if not (a.vararg or a.kwarg or a.posonlyargs or a.kwonlyargs):
            h = substituted(structural(_strip_error_translation(helper)))
            body = [x for x in h.body if not (isinstance(x, ast.Expr) and isinstance(x.value, ast.Constant) and isinstance(x.value.value, str))]
            if len(body) == 1 and isinstance(body[0], ast.Return) and body[0].value is not None:
                r = body[0].value
        _single_expr_cache[k] = r
    return _single_expr_cache[k]


class _ExprInliner(ast.NodeTransformer):
    def __init__(self, res: "Resolver", depth: int, stack):
        self.res, self.depth, self.stack = res, depth, stack

    def visit_Lambda(self, n):
        return n

    def visit_FunctionDef(self, n):
        return n

    def visit_Call(self, n):
        self.generic_visit(n)
        if self.depth <= 0:
            return n
        r = self.res.lookup(n)
        if r is None or r[0].name in self.stack:
            return n
        helper, skip = r
        e = _single_expr(helper)
        if e is None or n.keywords and any(k.arg is None for k in n.keywords) or any(isinstance(x, ast.Starred) for x in n.args):
            return n
        allp = [x.arg for x in helper.args.args]
        params = allp[skip:]
        defmap = {allp[len(allp) - len(helper.args.defaults) + i]: d for i, d in enumerate(helper.args.defaults)}
        if len(n.args) > len(params):
            return n
        binding = dict(zip(params, n.args))
        for k in n.keywords:
            if k.arg not in params or k.arg in binding:
                return n
            binding[k.arg] = k.value
        for p_ in params:
            if p_ not in binding:
                if p_ not in defmap:
                    return n
                binding[p_] = defmap[p_]
        for p_, v in binding.items():
            simple = isinstance(v, ast.Constant) or path_of(v) is not None
            uses = sum(1 for x in ast.walk(e) if isinstance(x, ast.Name) and x.id == p_)
            if not simple and uses > 1:
                return n
        m: Dict[str, object] = dict(binding)
        if skip == 1 and allp[0] != "self":
            m[allp[0]] = "self"
        new = _Rename(m).visit(clone(e))
        return ast.copy_location(new, n)


def _hoist(s, res: "Resolver", stack):
    """`... H(args) ...` with H a multi-statement private helper nested in a simple statement  ->  _t = H(args); ... _t ...
    only when H is the first call of the statement in evaluation order and is evaluated unconditionally"""
    if not isinstance(s, (ast.Return, ast.Assign, ast.Expr, ast.AugAssign)) or getattr(s, "value", None) is None:
        return None
    top = s.value
    calls = []

    def walk(e, cond):
        if isinstance(e, (ast.Lambda, ast.ListComp, ast.SetComp, ast.DictComp, ast.GeneratorExp)):
            return
        if isinstance(e, ast.BoolOp):
            for i, v in enumerate(e.values):
                walk(v, cond or i > 0)
            return
        if isinstance(e, ast.IfExp):
            walk(e.test, cond)
            walk(e.body, True)
            walk(e.orelse, True)
            return
        if isinstance(e, ast.Call):
            walk(e.func, cond)
            for a_ in e.args:
                walk(a_, cond)
            for k in e.keywords:
                walk(k.value, cond)
            calls.append((e, cond))
            return
        for ch in ast.iter_child_nodes(e):
            walk(ch, cond)
    walk(top, False)
    if not calls:
        return None
    first, cond = calls[0]
    if cond or first is top:
        return None
    r = res.lookup(first)
    if r is None or r[0].name in stack or _single_expr(r[0]) is not None:
        return None
    _counter[0] += 1
    tmp = f"_t{_counter[0]}"
    pre = ast.Assign(targets=[ast.Name(id=tmp, ctx=ast.Store())], value=first)
    ast.copy_location(pre, s)

    class R(ast.NodeTransformer):
        def visit_Call(self, n):
            if n is first:
                return ast.copy_location(ast.Name(id=tmp, ctx=ast.Load()), n)
            return self.generic_visit(n)
    s.value = R().visit(s.value)
    return [ast.fix_missing_locations(pre), s]


def _inline_block(stmts, res: Resolver, depth: int, stack: Tuple[str, ...]):
    out = []
    work = list(stmts)
    stmts = []
    for s in work:
        h = _hoist(s, res, stack) if depth > 0 else None
        stmts.extend(h if h else [s])
    for s in stmts:
        for fld in ("body", "orelse", "finalbody"):
            b = getattr(s, fld, None)
            if isinstance(b, list) and b and isinstance(b[0], ast.stmt):
                setattr(s, fld, _inline_block(b, res, depth, stack))
        if isinstance(s, ast.Try):
            for h in s.handlers:
                h.body = _inline_block(h.body, res, depth, stack)
        call = None
        make = None
        if isinstance(s, ast.Expr) and isinstance(s.value, ast.Call):
            call = s.value
            make = lambda e: None if isinstance(e, ast.Constant) and e.value is None else ast.Expr(value=e)
        elif isinstance(s, ast.Assign) and isinstance(s.value, ast.Call):
            call = s.value
            tg = s.targets
            make = lambda e, tg=tg: ast.Assign(targets=clone(tg), value=e)
        elif isinstance(s, ast.Return) and isinstance(s.value, ast.Call):
            call = s.value
            make = lambda e: ast.Return(value=e)
        elif isinstance(s, ast.AugAssign) and isinstance(s.value, ast.Call):
            call = s.value
            make = lambda e, s=s: ast.AugAssign(target=clone(s.target), op=s.op, value=e)
        r = res.lookup(call) if call is not None else None
        if r is not None and depth > 0 and r[0].name not in stack:
            helper, skip = r
            rep = _inline_call(call, helper, skip, make, value_used=not isinstance(s, ast.Expr))
            if rep is not None:
                rep = _inline_block(rep, res, depth - 1, stack + (helper.name,))
                out.extend(rep)
                continue
        # helpers that are one expression of their parameters are inlined wherever they are called
        if depth > 0 and not isinstance(s, (ast.FunctionDef, ast.ClassDef)):
            hdr = {"test", "iter", "value", "targets", "target", "exc", "items"}
            for fld, val in list(ast.iter_fields(s)):
                if fld in hdr and isinstance(val, ast.AST):
                    setattr(s, fld, _ExprInliner(res, depth, stack).visit(val))
        out.append(s)
    return out


def _drop_dead_local_defs(f, res):
    """a local closure every call of which was inlined is no longer read: its `def` statement is dropped (a block left empty keeps a `pass`)"""
    for name, d in list(res.local_defs.items()):
        if any(isinstance(x, ast.Name) and x.id == name and isinstance(x.ctx, ast.Load) for x in ast.walk(f)):
            continue
        for node in ast.walk(f):
            for fld in ("body", "orelse", "finalbody"):
                blk = getattr(node, fld, None)
                if isinstance(blk, list) and any(isinstance(x, ast.FunctionDef) and x.name == name and x is not f for x in blk):
                    new = [x for x in blk if not (isinstance(x, ast.FunctionDef) and x.name == name)]
                    setattr(node, fld, new or [ast.Pass()])


def inlined(fn, repo, ci=None, rel=None, depth=2, keep=frozenset()):
    """V2"""
    f = clone(fn)
    res = Resolver(repo, ci, rel, keep)
    f.body = _norm_body(f.body)
    res.set_local_defs(f)
    f.body = _inline_block(f.body, res, depth, (fn.name,))
    f = fold_class_literals(f, repo, ci)                   # named class-level numbers (also those the inlined helpers read) are the numbers
    _drop_dead_local_defs(f, res)
    f.body = _merge_tail_returns(f.body)
    f.body = _norm_body(f.body)
    f.body = _sink_into_branches(f.body)
    if _coalesce_helper_locals(f):
        f.body = _norm_body(f.body)
    f = alpha(f)
    return set_parents(ast.fix_missing_locations(f))


def _merge_tail_returns(body):
    """if C: A; return (e1, .., ek)  else: B        ->   if C: A; n1, .., nk = e1, .., ek  else: B
       return (n1, .., nk)                                return (n1, .., nk)
    (a branch that hands back the result tuple itself -- typically an inlined helper that built it -- instead of binding the result names and
    falling through to the function's single return; the values are evaluated before any name is bound, as in the return)"""
    if len(body) < 2 or not isinstance(body[-1], ast.Return) or not isinstance(body[-1].value, ast.Tuple):
        return body
    final = body[-1].value
    if len(final.elts) < 2 or not all(isinstance(e, ast.Name) for e in final.elts) or len({e.id for e in final.elts}) != len(final.elts):
        return body
    st = body[-2]
    if not isinstance(st, ast.If):
        return body
    ends = [blk for blk in (st.body, st.orelse) if blk and isinstance(blk[-1], ast.Return)]
    if len(ends) != 1:
        return body
    blk = ends[0]
    v = blk[-1].value
    if not (isinstance(v, ast.Tuple) and len(v.elts) == len(final.elts) and not any(isinstance(x, ast.Starred) for x in v.elts)):
        return body
    tgt = ast.Tuple([ast.Name(e.id, ast.Store()) for e in final.elts], ast.Store())
    blk[-1] = ast.copy_location(ast.Assign([tgt], v), blk[-1])
    return body


_HSUF = re.compile(r"^(.+)__h\d+$")


def _coalesce_helper_locals(f) -> bool:
    """locals of an inlined helper carry a suffix (x__h1) so that they cannot capture the caller's names.  Where that precaution was not needed the
    suffix is dropped again: (a) the caller does not use the base name x at all -> plain renaming; (b) all occurrences of x__h1 lie in one block, the
    only occurrence of x in that block from the first occurrence of x__h1 on is a top-level copy `x = x__h1` placed after the last binding of x__h1,
    and x is not re-bound later in the block -> x__h1 IS x from its binding on: rename and drop the copy."""
    set_parents(f)
    changed = False
    ys = sorted({n.id for n in ast.walk(f) if isinstance(n, ast.Name) and _HSUF.match(n.id)})
    for y in ys:
        base = _HSUF.match(y).group(1)
        # the caller's name the helper's result is copied into (`result = helper_local`), if any, is tried first; then the helper's own name
        copy_targets = [st.targets[0].id for st in ast.walk(f) if isinstance(st, ast.Assign) and len(st.targets) == 1 and isinstance(st.targets[0], ast.Name)
                        and isinstance(st.value, ast.Name) and st.value.id == y and not _HSUF.match(st.targets[0].id)]
        done = False
        # (when the result fans out into several of the caller's names, none of them is "the" name of the helper local: the helper's own name is kept)
        order = copy_targets + [base] if len(set(copy_targets)) == 1 else [base] + copy_targets
        for x in list(dict.fromkeys(order)):
            if _coalesce_one(f, y, x, allow_plain=(x == base)):
                changed = done = True
                break
        if done:
            set_parents(f)
    return changed


def _coalesce_one(f, y, x, allow_plain) -> bool:
    if True:
        changed = False
        occ_x = [n for n in ast.walk(f) if (isinstance(n, ast.Name) and n.id == x) or (isinstance(n, ast.arg) and n.arg == x)]
        occ_y = [n for n in ast.walk(f) if isinstance(n, ast.Name) and n.id == y]
        if not occ_y or any(_in_closure(n, f) for n in occ_y + [n for n in occ_x if isinstance(n, ast.Name)]):
            return False
        if not occ_x:
            if not allow_plain:
                return False
            for n in occ_y:
                n.id = x
            return True
        # the block (statement list) holding all occurrences of y
        blk = None
        for node in ast.walk(f):
            for fld in ("body", "orelse", "finalbody"):
                b = getattr(node, fld, None)
                if not (isinstance(b, list) and b and isinstance(b[0], ast.stmt)):
                    continue
                inside = {id(n) for st in b for n in ast.walk(st)}
                if all(id(n) in inside for n in occ_y):
                    if blk is None or len(inside) < blk[1]:
                        blk = (b, len(inside))
        if blk is None:
            return False
        b = blk[0]
        idx_of = lambda n: next(i for i, st in enumerate(b) if any(m is n for m in ast.walk(st)))
        iy = [idx_of(n) for n in occ_y]
        i0 = min(iy)
        stores_y = [n for n in occ_y if isinstance(n.ctx, (ast.Store, ast.Del))]
        # bindings of y are top-level statements of the block (plain or tuple targets)
        def definitely(st):
            if isinstance(st, ast.Assign):
                return any(isinstance(m, ast.Name) and m.id == y for t in st.targets for m in ast.walk(t))
            if isinstance(st, ast.If):
                def branch(b_):            # binds y, or does not complete normally (so it never reaches the copy)
                    return any(definitely(q) for q in b_) or (bool(b_) and isinstance(b_[-1], ast.Raise))
                return branch(st.body) and branch(st.orelse) and (any(definitely(q) for q in st.body) or any(definitely(q) for q in st.orelse))
            return False
        if not stores_y or not any(definitely(st) for st in b):
            return False               # y must be bound on every path before the copy (otherwise the copy raises where the renamed code would not)
        last_store = max(idx_of(n) for n in stores_y)
        xs_in = [(i, n) for i, st in enumerate(b) if i >= i0 for n in ast.walk(st) if isinstance(n, ast.Name) and n.id == x]
        copies = [i for i, st in enumerate(b) if isinstance(st, ast.Assign) and len(st.targets) == 1 and isinstance(st.targets[0], ast.Name)
                  and st.targets[0].id == x and isinstance(st.value, ast.Name) and st.value.id == y]
        if len(copies) != 1 or copies[0] <= last_store:
            return False
        c = copies[0]
        if any(i < c for i, n in xs_in):
            return False
        x_restored_later = any(isinstance(n.ctx, (ast.Store, ast.Del)) and i != c for i, n in xs_in)
        y_after_copy = any(i > c for i in iy)
        if x_restored_later and y_after_copy:
            return False               # x is re-bound later while y is still read: they are not one variable
        for n in occ_y:
            n.id = x
        b.pop(c)
        return True


# ----------------------------------------------------------------------------------------------------------------- forward substitution
def _stores(fn):
    names: Dict[str, int] = {}
    attrs: Set[str] = set()
    for n in ast.walk(fn):
        if isinstance(n, ast.Name) and isinstance(n.ctx, (ast.Store, ast.Del)):
            names[n.id] = names.get(n.id, 0) + 1
        elif isinstance(n, (ast.Attribute, ast.Subscript)) and isinstance(n.ctx, (ast.Store, ast.Del)):
            p = path_of(n if isinstance(n, ast.Attribute) else n.value)
            if p:
                attrs.add(p)
        elif isinstance(n, ast.AugAssign):
            p = path_of(n.target)
            if p:
                if "." in p:
                    attrs.add(p)
                else:
                    names[p] = names.get(p, 0) + 2
        elif isinstance(n, ast.comprehension):
            for x in ast.walk(n.target):
                if isinstance(x, ast.Name):
                    names[x.id] = names.get(x.id, 0) + 2
        elif isinstance(n, (ast.For,)):
            for x in ast.walk(n.target):
                if isinstance(x, ast.Name):
                    names[x.id] = names.get(x.id, 0) + 2
        elif isinstance(n, ast.arg):
            names[n.arg] = names.get(n.arg, 0) + 0
    return names, attrs


MUTATORS = {"append", "extend", "insert", "remove", "pop", "clear", "update", "add", "discard", "sort", "reverse", "setdefault", "popitem",
            "fill", "resize", "put", "itemset", "setflags", "partition", "setdiag", "eliminate_zeros", "sum_duplicates", "appendleft"}


def _stored_in(stmts) -> Tuple[Set[str], Set[str]]:
    names, attrs = set(), set()
    for s in stmts:
        for n in ast.walk(s):
            if isinstance(n, ast.Name) and isinstance(n.ctx, (ast.Store, ast.Del)):
                names.add(n.id)
            elif isinstance(n, (ast.Attribute, ast.Subscript)) and isinstance(n.ctx, (ast.Store, ast.Del)):
                p = path_of(n if isinstance(n, ast.Attribute) else n.value)
                if p:
                    attrs.add(p)
            elif isinstance(n, ast.AugAssign):
                p = path_of(n.target) or (path_of(n.target.value) if isinstance(n.target, ast.Subscript) else None)
                if p:
                    (attrs if "." in p else names).add(p)
            elif isinstance(n, ast.Call) and isinstance(n.func, ast.Attribute) and n.func.attr in MUTATORS:
                p = path_of(n.func.value)
                if p:
                    attrs.add(p)
                    names.add(p.split(".")[0]) if "." not in p else None
    return names, attrs


def _split_defs(f):
    """A local bound several times whose every read lies, in the block of one of its bindings, after that binding and before the next one (a temporary
    re-used in sibling branches or in consecutive steps) is several variables: each binding and the reads it reaches get their own name `x__dK`, which
    makes them single-assignment temporaries."""
    params = set(func_params(f))
    counts: Dict[str, int] = {}
    for n in ast.walk(f):
        if isinstance(n, ast.Name) and isinstance(n.ctx, (ast.Store, ast.Del)):
            counts[n.id] = counts.get(n.id, 0) + 1
    special = {n_ for x in ast.walk(f) if isinstance(x, (ast.Global, ast.Nonlocal)) for n_ in x.names}
    k = [0]
    for x, c in sorted(counts.items()):
        if c < 2 or x in params or x in special or "__d" in x:
            continue
        stores = [n for n in ast.walk(f) if isinstance(n, ast.Name) and n.id == x and isinstance(n.ctx, (ast.Store, ast.Del))]
        loads = [n for n in ast.walk(f) if isinstance(n, ast.Name) and n.id == x and isinstance(n.ctx, ast.Load)]
        if any(_in_closure(u, f) for u in loads):
            continue
        # every store must be the single Name target of a plain assignment statement sitting directly in a block
        sites = []
        ok = True
        for st in stores:
            a = getattr(st, "_parent", None)
            if not (isinstance(a, ast.Assign) and len(a.targets) == 1 and a.targets[0] is st):
                ok = False
                break
            blk = None
            par = getattr(a, "_parent", None)
            for fld in ("body", "orelse", "finalbody"):
                b = getattr(par, fld, None)
                if isinstance(b, list) and any(z is a for z in b):
                    blk = b
            if blk is None:
                ok = False
                break
            sites.append((a, blk, [z is a for z in blk].index(True)))
        if not ok:
            continue
        owner: Dict[int, int] = {}
        for j, (a, blk, i) in enumerate(sites):
            for st2 in blk[i + 1:]:
                redefined_here = isinstance(st2, ast.Assign) and any(z is st2 for z, _, _ in sites)
                for n in ast.walk(st2):
                    if isinstance(n, ast.Name) and n.id == x:
                        if isinstance(n.ctx, ast.Load):
                            if id(n) in owner:
                                ok = False
                            owner[id(n)] = j
                        elif not (redefined_here and n is st2.targets[0]):
                            ok = False          # re-bound inside a nested statement after this binding
                if redefined_here:
                    break
            # the right-hand side of a binding may read the previous value (x = g(x)): that read belongs to the previous binding and was seen above
        if not ok or len(owner) != len(loads):
            continue
        # a binding inside a loop whose reads could see the previous iteration's value is excluded by construction (reads follow the binding in its block)
        for j, (a, blk, i) in enumerate(sites):
            k[0] += 1
            new = f"{x}__d{k[0]}"
            a.targets[0].id = new
            for n in loads:
                if owner[id(n)] == j:
                    n.id = new
    return f


def substituted(fn, only=None):
    """V3 pass on an already normalised function: forward-substitute stable single-assignment temporaries
    (`only`: predicate on the defining expression, e.g. boolean-valued temporaries only)."""
    f = clone(fn)
    set_parents(f)
    if only is None:
        f = set_parents(_split_defs(f))
    params = set(func_params(f))
    changed = True
    rounds = 0
    while changed and rounds < 40:
        changed = False
        rounds += 1
        names, attrs = _stores(f)
        mut_names, mut_attrs = _stored_in(f.body)
        for node in ast.walk(f):
            for fld in ("body", "orelse", "finalbody"):
                blk = getattr(node, fld, None)
                if not (isinstance(blk, list) and blk and isinstance(blk[0], ast.stmt)):
                    continue
                for i, s in enumerate(blk):
                    if not (isinstance(s, ast.Assign) and len(s.targets) == 1 and isinstance(s.targets[0], ast.Name)):
                        continue
                    x = s.targets[0].id
                    if names.get(x, 0) != 1 or x in params:
                        continue           # re-bound: not a value temporary
                    rhs = s.value
                    if x in mut_attrs and not _element_ref(rhs, mut_attrs):
                        continue           # mutated in place (x[k] = ..., x.append(...)): not a value temporary, unless it merely names an element of a container
                    if isinstance(rhs, ast.Lambda) or (only is not None and not only(rhs)):
                        continue
                    uses = [n for n in ast.walk(f) if isinstance(n, ast.Name) and n.id == x and isinstance(n.ctx, ast.Load)]
                    if not uses:
                        continue
                    if any(_in_closure(u, f) for u in uses):
                        continue           # a closure reads the variable when it is CALLED: substituting the defining expression there is not equivalent
                    # isinstance(<local>, <class names>) depends on the binding of the local only (an object does not change its class): it is no more a
                    # call than a comparison is, and may be read at several places and past effects as long as the local is not re-bound
                    # ... and a pure accessor hoisted out of the comprehension(s) that read it (`names = d.get_parameter_names(); {.. if k in names}`) is
                    # folded back into them; read anywhere else the temporary stays a temporary
                    acc_ok = isinstance(rhs, ast.Call) and _is_pure_accessor(rhs) and all(_in_comprehension(u, f) for u in uses)
                    has_call = not acc_ok and any(isinstance(n, ast.Call) and not _is_type_test(n) for n in ast.walk(rhs))
                    if has_call and len(uses) != 1:
                        continue
                    # uses must all lie in later statements of the same block (possibly nested inside them)
                    use_idx = []
                    ok_pos = True
                    for u in uses:
                        j = None
                        for k in range(i + 1, len(blk)):
                            if any(n is u for n in ast.walk(blk[k])):
                                j = k
                                break
                        if j is None:
                            ok_pos = False
                            break
                        use_idx.append(j)
                    if not ok_pos:
                        continue
                    last = max(use_idx)
                    between = blk[i + 1:last + 1]
                    # stores performed by the statement that contains the (last) use happen after its expressions were evaluated when it is a
                    # simple statement, or an `if` whose test holds the use; only compound statements are scanned as a whole
                    last_stmt = blk[last]
                    simple_last = isinstance(last_stmt, (ast.Assign, ast.AugAssign, ast.AnnAssign, ast.Return, ast.Expr, ast.Raise, ast.Assert)) or \
                        (isinstance(last_stmt, ast.If) and all(any(n is u for n in ast.walk(last_stmt.test)) for u in uses if any(n is u for n in ast.walk(last_stmt))))
                    scan = blk[i + 1:last] if simple_last else between
                    st_names, st_attrs = _stored_in(scan)
                    if simple_last and isinstance(last_stmt, (ast.Assign, ast.AugAssign, ast.AnnAssign)):
                        # a[i] = f(tmp): the target expression is evaluated after the value; only a Name target that tmp's rhs reads is a problem
                        pass
                    # a use inside a loop that lies after the definition sees the same value only if nothing it reads changes in that loop
                    bound_in_rhs = {t.id for c in ast.walk(rhs) if isinstance(c, ast.comprehension) for t in ast.walk(c.target) if isinstance(t, ast.Name)}
                    stable = True
                    for n in ast.walk(rhs):
                        if isinstance(n, ast.Name) and isinstance(n.ctx, ast.Load) and n.id not in bound_in_rhs:
                            if n.id in st_names:
                                stable = False
                        p_ = path_of(n) if isinstance(n, ast.Attribute) else None
                        if p_ and any(p_ == a or p_.startswith(a + ".") or a.startswith(p_ + ".") for a in st_attrs):
                            stable = False
                    if not stable:
                        continue
                    if has_call and _crosses_effect(between, uses[0]):
                        continue
                    for u in uses:
                        par = u._parent
                        for fld2, val in ast.iter_fields(par):
                            if val is u:
                                setattr(par, fld2, clone(rhs))
                            elif isinstance(val, list):
                                for k, it in enumerate(val):
                                    if it is u:
                                        val[k] = clone(rhs)
                    blk.pop(i)
                    set_parents(f)
                    changed = True
                    break
                if changed:
                    break
            if changed:
                break
    return set_parents(ast.fix_missing_locations(f))


# zero-argument accessors that compute their result from the receiver without changing anything (every implementation in the repository builds a fresh
# list of names): calling them once before a comprehension or once per element is the same
_PURE_ACCESSORS = {"get_parameter_names", "get_conditioning_variables", "get_mutable_variables"}


def _is_pure_accessor(c: ast.Call) -> bool:
    return isinstance(c.func, ast.Attribute) and c.func.attr in _PURE_ACCESSORS and not c.args and not c.keywords and isinstance(c.func.value, ast.Name)


def _in_comprehension(node, root) -> bool:
    """node is evaluated once PER ELEMENT of a comprehension (element expression, condition, inner iterable) - not in the first iterable, which is
    evaluated once whether or not it was named before"""
    n, child = getattr(node, "_parent", None), node
    while n is not None and n is not root:
        if isinstance(n, (ast.ListComp, ast.DictComp, ast.SetComp, ast.GeneratorExp)):
            first = n.generators[0]
            if not (child is first and any(x is node for x in ast.walk(first.iter))):
                return True
        child, n = n, getattr(n, "_parent", None)
    return False


def _is_type_test(c: ast.Call) -> bool:
    if not (isinstance(c.func, ast.Name) and c.func.id == "isinstance" and len(c.args) == 2 and not c.keywords and isinstance(c.args[0], ast.Name)):
        return False
    return all(isinstance(x, (ast.Name, ast.Attribute, ast.Tuple, ast.Load)) for x in ast.walk(c.args[1]))


def _element_ref(e, mutated) -> bool:
    """`c[k]` / `c[k][j]` with c a local name and k, j names or constants: the expression yields the element object itself (dict / list / array-of-rows element),
    so a variable bound to it is a reference to that element and writing through the variable is writing through the expression -- provided the container
    itself is not written in the function (then the element the expression names could change between the binding and the use)"""
    n = 0
    while isinstance(e, ast.Subscript):
        k = e.slice
        if not (isinstance(k, ast.Name) or (isinstance(k, ast.Constant) and isinstance(k.value, (int, str)))):
            return False
        e = e.value
        n += 1
    if n >= 1 and isinstance(e, ast.Name):
        return e.id not in mutated
    # ... or of a container held in an attribute of self (self.samples[k]) that the function does not write itself
    p = path_of(e)
    return n >= 1 and p is not None and p.startswith("self.") and p.count(".") == 1 and p not in mutated


def _in_closure(node, root) -> bool:
    n = getattr(node, "_parent", None)
    while n is not None and n is not root:
        if isinstance(n, (ast.FunctionDef, ast.AsyncFunctionDef, ast.Lambda)):
            return True
        n = getattr(n, "_parent", None)
    return False


def _crosses_effect(between, use) -> bool:
    """moving a call from its definition site to its single use must not move it past a statement with side effects or into a loop/branch"""
    if not between:
        return False
    # the use must be in the LAST statement of `between` and not inside a loop or conditional of it; earlier statements must be effect free
    last = between[-1]
    for anc_holder in ast.walk(last):
        pass
    # nested in a loop / if of the last statement?
    n = use
    while n is not None and n is not last:
        n = getattr(n, "_parent", None)
        if isinstance(n, (ast.For, ast.While, ast.If, ast.IfExp, ast.ListComp, ast.DictComp, ast.SetComp, ast.GeneratorExp, ast.Lambda, ast.Try)) and n is not last:
            return True
    if isinstance(last, ast.For) and any(x is use for x in ast.walk(last.iter)):
        pass            # the iterable is evaluated once, before the loop
    elif isinstance(last, (ast.For, ast.While)):
        return True
    if isinstance(last, ast.If) and not any(x is use for x in ast.walk(last.test)):
        return True
    for s in between[:-1]:
        for x in ast.walk(s):
            if isinstance(x, (ast.Call, ast.Raise, ast.Return)):
                return True
            if isinstance(x, (ast.Attribute, ast.Subscript)) and isinstance(x.ctx, ast.Store):
                return True
    return False


def bool_temps_substituted(f):
    """named booleans (`ok = a and not b; if ok:`) are folded into the tests that use them, then the structure is re-normalised"""
    for _ in range(3):
        before = ast.dump(f)
        f = substituted(f, only=lambda rhs: _is_boolish(rhs))
        g = clone(f)
        g.body = _norm_body(g.body)
        f = set_parents(ast.fix_missing_locations(alpha(g)))
        if ast.dump(f) == before:
            break
    return f


def _sink_into_branches(stmts: List[ast.stmt]) -> List[ast.stmt]:
    """if c: t = e1 else: t = e2 ; S(t)        ->   if c: S(e1) else: S(e2)
    when S is the next statement, a simple statement that reads t exactly once, and t is not read anywhere else (same evaluation order)"""
    out: List[ast.stmt] = []
    i = 0
    while i < len(stmts):
        s = stmts[i]
        for fld in ("body", "orelse", "finalbody"):
            b = getattr(s, fld, None)
            if isinstance(b, list) and b and isinstance(b[0], ast.stmt):
                setattr(s, fld, _sink_into_branches(b))
        nxt = stmts[i + 1] if i + 1 < len(stmts) else None
        done = False
        if isinstance(s, ast.If) and len(s.body) == 1 and len(s.orelse) == 1 and isinstance(s.body[0], ast.Assign) and isinstance(s.orelse[0], ast.Assign) \
                and isinstance(nxt, (ast.Assign, ast.AugAssign, ast.Return, ast.Expr)):
            a, b = s.body[0], s.orelse[0]
            if len(a.targets) == 1 and len(b.targets) == 1 and isinstance(a.targets[0], ast.Name) and isinstance(b.targets[0], ast.Name) \
                    and a.targets[0].id == b.targets[0].id:
                t = a.targets[0].id
                uses_next = [n for n in ast.walk(nxt) if isinstance(n, ast.Name) and n.id == t and isinstance(n.ctx, ast.Load)]
                later = [n for st in stmts[i + 2:] for n in ast.walk(st) if isinstance(n, ast.Name) and n.id == t and isinstance(n.ctx, ast.Load)]
                stored_next = any(isinstance(n, ast.Name) and n.id == t and isinstance(n.ctx, ast.Store) for n in ast.walk(nxt))
                if len(uses_next) == 1 and (not later or stored_next) and not any(_in_closure_simple(u, nxt) for u in uses_next) and t.startswith("_t"):
                    s1, s2 = clone(nxt), clone(nxt)
                    s.body = [_Rename({t: a.value}).visit(s1)]
                    s.orelse = [_Rename({t: b.value}).visit(s2)]
                    out.append(s)
                    i += 2
                    done = True
        if not done:
            out.append(s)
            i += 1
    return out


def _in_closure_simple(node, root) -> bool:
    for n in ast.walk(root):
        if isinstance(n, (ast.Lambda, ast.FunctionDef)) and any(x is node for x in ast.walk(n)):
            return True
    return False


def _fix(f):
    """substitution and structural normalisation enable each other (a loop body shrinks to one append, an accumulated list becomes a
    single-use temporary, ...): alternate them a few times"""
    for _ in range(3):
        before = ast.dump(f)
        f = substituted(f)
        g = clone(f)
        g.body = _norm_body(g.body)
        f = set_parents(ast.fix_missing_locations(alpha(g)))
        if ast.dump(f) == before:
            break
    return f


def _small(e) -> bool:
    return len(list(ast.walk(e))) <= 12


# ----------------------------------------------------------------------------------------------------------------- views
_CLASS_LITS: Dict[Tuple[int, str], Dict[str, object]] = {}


def class_literals(repo, ci) -> Dict[str, object]:
    """NAME -> number for the class-level attributes of ci (own or inherited) that are bound to a number literal, never stored on instances or on the class by
    any function of the hierarchy (ancestors and subclasses), and not re-defined by a subclass: reading `self.NAME` / `Class.NAME` is reading the number"""
    if repo is None or ci is None or not hasattr(ci, "mro"):
        return {}
    k = (id(repo), ci.qual)
    if k in _CLASS_LITS:
        return _CLASS_LITS[k]
    lits: Dict[str, object] = {}
    for c in ci.mro():
        for name, v in getattr(c, "class_attrs", {}).items():
            if name in lits:
                continue
            val = None
            if isinstance(v, ast.Constant) and isinstance(v.value, (int, float)) and not isinstance(v.value, bool):
                val = v.value
            elif isinstance(v, ast.UnaryOp) and isinstance(v.op, ast.USub) and isinstance(v.operand, ast.Constant) \
                    and isinstance(v.operand.value, (int, float)) and not isinstance(v.operand.value, bool):
                val = -v.operand.value
            if val is not None:
                lits[name] = val
    if lits:
        family = list(ci.mro())
        try:
            subs = repo.subclasses(ci)
        except Exception:
            subs = []
        for sc in subs:
            for name in list(lits):
                if name in getattr(sc, "class_attrs", {}):
                    del lits[name]
        family += subs
        for c in family:
            for _, _, f in c.all_functions():
                for n in ast.walk(f):
                    tg = n.targets if isinstance(n, ast.Assign) else ([n.target] if isinstance(n, (ast.AugAssign, ast.AnnAssign)) else [])
                    for t in tg:
                        for x in ast.walk(t):
                            if isinstance(x, ast.Attribute) and isinstance(x.ctx, ast.Store) and x.attr in lits:
                                del lits[x.attr]
                    if isinstance(n, ast.Call) and isinstance(n.func, ast.Name) and n.func.id == "setattr" and len(n.args) >= 2:
                        a1 = n.args[1]
                        if not isinstance(a1, ast.Constant):
                            lits.clear()           # a computed attribute name may be any of them
                        elif a1.value in lits:
                            del lits[a1.value]
    _CLASS_LITS[k] = lits
    return lits


def fold_class_literals(fn, repo, ci):
    """`self.NAME` / `type(self).NAME` / `Class.NAME` with NAME one of class_literals(ci) replaced by the number (fn itself when there is nothing to fold)"""
    lits = class_literals(repo, ci)
    if not lits:
        return fn
    names = {c.name for c in ci.mro()} | {"self", "type(self)", "self.__class__"}
    hit = [n for n in ast.walk(fn) if isinstance(n, ast.Attribute) and isinstance(n.ctx, ast.Load) and n.attr in lits and path_of_or_call(n.value) in names]
    if not hit:
        return fn

    class T(ast.NodeTransformer):
        def visit_Attribute(self, n):
            self.generic_visit(n)
            if isinstance(n.ctx, ast.Load) and n.attr in lits and path_of_or_call(n.value) in names:
                v = lits[n.attr]
                new = ast.UnaryOp(op=ast.USub(), operand=ast.Constant(-v)) if v < 0 else ast.Constant(v)
                return ast.copy_location(new, n)
            return n
    out = T().visit(clone(fn))
    for a in ("_rel",):
        if hasattr(fn, a):
            setattr(out, a, getattr(fn, a))
    return set_parents(ast.fix_missing_locations(out))


def path_of_or_call(e) -> Optional[str]:
    if isinstance(e, ast.Call) and isinstance(e.func, ast.Name) and e.func.id == "type" and len(e.args) == 1 and isinstance(e.args[0], ast.Name):
        return f"type({e.args[0].id})"
    return path_of(e)


class Views:
    """the views of one function, with helpers to ask whether some view satisfies a predicate"""

    def __init__(self, fn, repo=None, ci=None, rel=None, normaliser=None):
        self.fn = fn
        self.normaliser = normaliser or (lambda e: unparse(e).replace(" ", ""))
        self.normalise_needle = normaliser is not None
        vs = [fn]
        try:
            v1 = structural(fold_class_literals(fn, repo, ci))       # named class-level numbers read as the numbers
            vs.append(v1)
            v2 = inlined(fn, repo, ci, rel) if repo is not None else v1
            if v2 is not v1:
                vs.append(v2)
            vs.append(_fix(v2))
            vs.append(_fix(v1))
        except RecursionError:
            pass
        self.views: List[ast.AST] = vs
        self._texts: Optional[List[str]] = None

    @property
    def texts(self) -> List[str]:
        if self._texts is None:
            seen, out = set(), []
            for v in self.views:
                t = self.normaliser(v)
                if t not in seen:
                    seen.add(t)
                    out.append(t)
            self._texts = out
        return self._texts

    def __contains__(self, s: str) -> bool:
        s = self.normaliser(s) if self.normalise_needle else s
        return any(s in t for t in self.texts)

    def statements(self, nested=False):
        """pattern.statements() of all views (a statement that occurs in any view is a statement of the function)"""
        from .pattern import statements
        seen, out = set(), []
        for v in self.views:
            for t, n in statements(v, nested):
                if t not in seen:
                    seen.add(t)
                    out.append((t, n))
        return out

    def any(self, pred) -> bool:
        return any(pred(v) for v in self.views)

    def first(self, pred):
        for v in self.views:
            r = pred(v)
            if r:
                return r
        return None

    def count_max(self, s: str) -> int:
        return max(t.count(s) for t in self.texts)

    def __str__(self):
        return self.texts[0]
