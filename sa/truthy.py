"""Truthiness defaults: an optional argument whose default is None must be defaulted with `is None`. Spelling the default as `p = p or D`,
`p = D if not p else p` or `if not p: p = D` also replaces every other falsy value the caller may legally pass - the number 0, 0.0, an empty tuple -
and raises for arrays with more than one element. The scan reports those three spellings for parameters declared with default None."""
from __future__ import annotations
import ast
from typing import List, Tuple


def _none_default_params(fn) -> set:
    a = fn.args
    out = set()
    pos = a.posonlyargs + a.args
    for p, d in zip(reversed(pos), reversed(a.defaults)):
        if isinstance(d, ast.Constant) and d.value is None:
            out.add(p.arg)
    for p, d in zip(a.kwonlyargs, a.kw_defaults):
        if d is not None and isinstance(d, ast.Constant) and d.value is None:
            out.add(p.arg)
    return out


def scan(tree) -> List[Tuple[ast.AST, str]]:
    out = []
    for fn in ast.walk(tree):
        if not isinstance(fn, (ast.FunctionDef, ast.AsyncFunctionDef)):
            continue
        ps = _none_default_params(fn)
        if not ps:
            continue
        for s in ast.walk(fn):
            # p = p or D
            if isinstance(s, ast.Assign) and len(s.targets) == 1 and isinstance(s.targets[0], ast.Name) and s.targets[0].id in ps:
                v, p = s.value, s.targets[0].id
                if isinstance(v, ast.BoolOp) and isinstance(v.op, ast.Or) and isinstance(v.values[0], ast.Name) and v.values[0].id == p:
                    out.append((s, p))
                elif isinstance(v, ast.IfExp):
                    t = v.test
                    neg = isinstance(t, ast.UnaryOp) and isinstance(t.op, ast.Not) and isinstance(t.operand, ast.Name) and t.operand.id == p
                    pos = isinstance(t, ast.Name) and t.id == p
                    if (neg and isinstance(v.orelse, ast.Name) and v.orelse.id == p) or (pos and isinstance(v.body, ast.Name) and v.body.id == p):
                        out.append((s, p))
            # if not p: p = D
            elif isinstance(s, ast.If) and isinstance(s.test, ast.UnaryOp) and isinstance(s.test.op, ast.Not) and isinstance(s.test.operand, ast.Name) \
                    and s.test.operand.id in ps and not s.orelse:
                p = s.test.operand.id
                if any(isinstance(b, ast.Assign) and len(b.targets) == 1 and isinstance(b.targets[0], ast.Name) and b.targets[0].id == p for b in s.body):
                    out.append((s, p))
    return out


_CONTROL = '''
def f(data=None, prior=None, n=None, k=None):
    data = data or 1
    if prior is None:
        prior = 2
    n = 3 if not n else n
    if not k:
        k = 4
    return data, prior, n, k
'''


def truthy_default_rule(chk, repo, rule: str, prefixes) -> int:
    from .index import AnchorError
    hits = scan(ast.parse(_CONTROL))
    if sorted((h[0].lineno, h[1]) for h in hits) != [(3, "data"), (6, "n"), (7, "k")]:
        raise AnchorError(f"truthiness-default positive control did not fire as expected: {[(h[0].lineno, h[1]) for h in hits]}")
    n = 0
    for rel in sorted(repo.modules):
        if not rel.startswith(tuple(prefixes)):
            continue
        m = repo.modules[rel]
        repo.consulted[rel] = m.digest
        found = scan(m.tree)
        n += 1
        if not found:
            chk.ok(rule, f"{rel}/optional-arguments", f"{rel}:1", "no optional argument is defaulted by truthiness")
        for s, p in found:
            chk.fail(rule, f"{rel}/truthy-default@{p}:{ast.unparse(s)[:40]}", f"{rel}:{s.lineno}",
                     f"`{ast.unparse(s)[:70]}` replaces the optional argument `{p}` whenever it is falsy, not only when it is None: a legal value such as 0 or 0.0 "
                     f"is silently replaced by the default (and an array raises)", s)
    return n
