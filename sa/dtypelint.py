"""Integer-dtype pitfalls. Distribution parameters and evaluation points are stored with the dtype the user gave (force_ndarray / np.asarray keep
integers), so NumPy operations whose meaning changes for integer arrays change the value of a density or gradient for legal inputs such as
`Gamma(2, 3)` or an integer evaluation point:
  * np.full_like / np.zeros_like(...)+fill / np.empty_like with a non-finite or fractional fill value: the result has the argument's dtype, NaN becomes
    -9223372036854775808, 0.5 becomes 0  (use np.full(np.shape(x), np.nan) or dtype=float);
  * np.reciprocal(a): integer division for integer a (0 for every entry >= 2); 1/a is true division.
The scan reports these call shapes unless a float dtype is requested explicitly or the argument is converted with float()/astype(float)/np.asarray(.., dtype=float)."""
from __future__ import annotations
import ast
from typing import List, Tuple

from .astutil import call_name


def _is_nonfinite_or_fraction(e) -> bool:
    t = ast.unparse(e).replace(" ", "")
    if t in ("np.nan", "np.NaN", "np.NAN", "numpy.nan", "float('nan')", 'float("nan")', "math.nan", "np.inf", "-np.inf", "np.Inf", "-np.Inf", "float('inf')", "-float('inf')"):
        return True
    return isinstance(e, ast.Constant) and isinstance(e.value, float) and e.value != int(e.value)


def _float_requested(c: ast.Call) -> bool:
    for k in c.keywords:
        if k.arg == "dtype" and ("float" in ast.unparse(k.value) or "complex" in ast.unparse(k.value)):
            return True
    return False


def _float_converted(e) -> bool:
    if isinstance(e, ast.Call):
        cn = call_name(e) or ""
        if cn in ("float", "np.float64", "np.double"):
            return True
        if isinstance(e.func, ast.Attribute) and e.func.attr == "astype" and e.args and "float" in ast.unparse(e.args[0]):
            return True
        if cn in ("np.asarray", "np.array", "np.asfarray") and (_float_requested(e) or cn == "np.asfarray"):
            return True
    if isinstance(e, ast.BinOp) and isinstance(e.op, ast.Mult) and any(isinstance(x, ast.Constant) and isinstance(x.value, float) for x in (e.left, e.right)):
        return True          # 1.0 * a
    return False


def scan(tree) -> List[Tuple[ast.AST, str]]:
    out = []
    for c in ast.walk(tree):
        if not isinstance(c, ast.Call):
            continue
        cn = (call_name(c) or "")
        last = cn.split(".")[-1]
        if last == "full_like" and len(c.args) >= 2 and _is_nonfinite_or_fraction(c.args[1]) and not _float_requested(c) and not _float_converted(c.args[0]):
            out.append((c, f"{cn}(..., {ast.unparse(c.args[1])}) keeps the dtype of its first argument"))
        if last == "reciprocal" and c.args and not _float_requested(c) and not _float_converted(c.args[0]):
            out.append((c, f"{cn}(...) is integer division for integer arrays"))
    return out


_CONTROL = '''
def grad(x, rate):
    a = np.full_like(x, np.nan)
    b = np.full_like(x, np.nan, dtype=float)
    c = np.reciprocal(rate)
    d = np.reciprocal(rate.astype(float))
    e = np.full_like(x, 0)
    return a, b, c, d, e
'''


def dtype_rule(chk, repo, rule: str, prefixes) -> int:
    from .index import AnchorError
    hits = scan(ast.parse(_CONTROL))
    if [h[0].lineno for h in hits] != [3, 5]:
        raise AnchorError(f"integer-dtype positive control did not fire as expected: {[h[0].lineno for h in hits]}")
    n = 0
    for rel in sorted(repo.modules):
        if not rel.startswith(tuple(prefixes)):
            continue
        m = repo.modules[rel]
        repo.consulted[rel] = m.digest
        n += 1
        found = scan(m.tree)
        if not found:
            chk.ok(rule, f"{rel}/integer-dtype", f"{rel}:1", "no dtype-preserving constructor with a non-finite/fractional fill, no np.reciprocal on unconverted input")
        for c, why in found:
            chk.fail(rule, f"{rel}/integer-dtype@{ast.unparse(c)[:40]}", f"{rel}:{c.lineno}",
                     f"`{ast.unparse(c)[:70]}`: {why}; parameters and evaluation points keep the user's dtype, so for integer input (e.g. rate=3, or an integer "
                     f"point outside the support) the value is silently wrong (NaN -> a huge negative integer, 1/3 -> 0)", c)
    return n
