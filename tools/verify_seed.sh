#!/bin/sh
# usage: tools/verify_seed.sh <seed-id> [base-commit]   -- confirm a seeded change in its own scratch worktree
ID="$1"; BASE="${2:-2449ec6}"
S="/verif/seeded/$ID"; W="/tmp/sv/$ID"
mkdir -p /tmp/sv; rm -rf "$W"; git -C /repo worktree prune
git -C /repo worktree add -q --detach "$W" "$BASE" || exit 3
cd "$W" || exit 3
d0=$(/venv/bin/python -W ignore "$S/demo.py" 2>&1 | tail -1); rc0=$?
/venv/bin/python -W ignore "$S/demo.py" >/dev/null 2>&1; rc0=$?
git apply "$S/patch.diff" || { echo "$ID PATCH-FAILED"; git -C /repo worktree remove --force "$W"; exit 3; }
/venv/bin/python -W ignore "$S/demo.py" > "$W/_demo_changed.txt" 2>&1; rc1=$?
OMP_NUM_THREADS=2 OPENBLAS_NUM_THREADS=2 /venv/bin/python -m pytest -q -p no:cacheprovider --timeout=900 tests > "$W/_tests.txt" 2>&1
tsum=$(tail -1 "$W/_tests.txt")
d1=$(tail -1 "$W/_demo_changed.txt" | cut -c1-300)
printf '{"seed": "%s", "base_commit": "%s", "demo_unchanged_rc": %s, "demo_changed_rc": %s, "tests_with_change": "%s", "demo_changed_last_line": %s, "demo_unchanged_last_line": %s}\n' \
  "$ID" "$BASE" "$rc0" "$rc1" "$(echo "$tsum" | tr -d '"=' | sed 's/^ *//')" "$(printf '%s' "$d1" | /venv/bin/python -c 'import json,sys; print(json.dumps(sys.stdin.read()))')" "$(printf '%s' "$d0" | cut -c1-200 | /venv/bin/python -c 'import json,sys; print(json.dumps(sys.stdin.read()))')" > "$S/verified.json"
cd /; git -C /repo worktree remove --force "$W"
echo "$ID unchanged_rc=$rc0 changed_rc=$rc1 tests: $tsum"
