#!/bin/sh
# usage: tools/benign_detail.sh <benign-id> <Cxx>  -- show what a check says on a behaviour-preserving refactoring
B="$1"; P="$2"
d=$(mktemp -d /tmp/bn.XXXXXX); cp -r /repo/cuqi $d/
(cd $d && git apply --include='cuqi/*' /verif/benign/$B/patch.diff) || { echo PATCH-FAILED; rm -rf $d; exit 3; }
VERIF_NO_EVIDENCE=1 /verif/check $P --root $d | grep -v "^KNOWN"
rm -rf $d
