#!/venv/bin/python
"""usage: tools/quick_matrix.py <patch.diff> [...]  -- all 20 checks on each patch (scratch copies, 16 processes); prints what reports it"""
import sys, os
sys.path.insert(0, "/verif"); sys.path.insert(0, "/verif/tools")
from concurrent.futures import ProcessPoolExecutor
import matrix
if __name__ == "__main__":
    S = [{"id": os.path.basename(os.path.dirname(os.path.abspath(p))), "kind": "patch", "path": os.path.abspath(p), "reverse": False} for p in sys.argv[1:]]
    with ProcessPoolExecutor(min(16, len(S))) as ex:
        for r in ex.map(matrix.run, S):
            if not r["applied"]:
                print(f"{r['id']:12s} NOT-APPLICABLE {r.get('why','')[:80]}"); continue
            det = {p: [x.split('-')[1] for x in v] for p, v in r["props"].items() if not v[0].startswith(("ANALYSIS", "INTERNAL"))}
            err = {p: v[0][:90] for p, v in r["props"].items() if v[0].startswith(("ANALYSIS", "INTERNAL"))}
            print(f"{r['id']:12s} {det or '-'}" + (f"   errors: {err}" if err else ""))
