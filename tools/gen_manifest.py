#!/usr/bin/env python3
"""Regenerates /verif/MANIFEST.json from the per-property metadata below and from which sa/props/cXX.py exist."""
import json, os, sys
HERE = os.path.dirname(os.path.dirname(os.path.abspath(__file__)))

META = {
 "C01": ("refusal guards dominate evaluation; reduction keeps every factor and folded constant; stacked/keyword views use one name/size table",
         "CFG dominance + def-use provenance on semantics-preserving normal forms + who-may-write rule for the folded constant + who-may-construct table for Posterior + late-binding closure lint over the conditioning code + name-preservation rule for forwarded values + path reachability rules for leftover keywords (no exit before / without the refusal) + who-may-call rule for the raw evaluation `_logd` (ast)"),
 "C02": ("accept branch of all 8 Metropolis kernels: finite guard, paired state/cache update from the same proposal, sign of the log-ratio terms, symmetric-proposal precondition, pCN form",
         "CFG guard analysis + def-use provenance + sign/dependence lattice + point/cache coherence of every cached-evaluation write (point and evaluating function) + store/validate ordering with rollback for configured proposals + who-may-write rule for the current point outside the kernels (ast)"),
 "C03": ("gradient depends on every parameter the log-density combines with x; 'not available' is a raise on every path; chain-rule guards dominate; support predicates agree; FD switch differentiates logd",
         "backward dependence slices + CFG fall-through analysis + Gram-orientation classification + cache-coherence rule + decision table / closed form of Model.gradient and of the scalar difference quotient + radicand agreement between gradient and log-density closed forms + integer-dtype lint with positive control + aggregation polarity of support tests + same-orientation application of a square root (ast)"),
 "C04": ("property getter/setter wiring; CDF aggregation by product; Gaussian shape-dispatch helpers assign every returned name and agree on the sign of logdet; un-normalised = normalised - constant",
         "property-table lint + definite assignment + sign lattice + Gram-orientation def-use rule + exact-shortcut-guard lint + mirror-refresh predicate table + guard rule for determinants read off a diagonal + integer-dtype lint with positive control + closed outcomes of the un-normalised density over all paths + argument-unit lint for Gaussian tail functions + abstract interpretation of the covariance-conversion helpers in the scale-degree domain (ast)"),
 "C05": ("generator discipline in every _sample (global NumPy stream only when rng is None); sampler reads the density's parameters; triangular-solve orientation matches its guard; wrapper refuses conditionals and wraps with the geometry",
         "path-sensitive CFG rule + dependence comparison + cache-coherence + exact-shortcut-guard lint + shape rule on closed forms per path (single right-hand side) + global-RNG re-seeding lint with positive control + additive-location rule on expression trees of the direct samplers + column-fill rule (loop bounds against the allocation) (ast)"),
 "C06": ("stacked RTO/UGLA operator: adjoint branch is the blockwise transpose of the forward branch with the same scalars and slices; right-hand side whitened like the operator; step shape",
         "expression-tree factor-chain comparison between sibling branches + closed forms of the prior factors + definite assignment of operator and right-hand side + path walk of the 5-tuple set-up + stored-as-given rule for solver budgets + late-binding closure capture lint with positive control (ast)"),
 "C07": ("representation typestate of Model/LinearModel: raw operators only see function values, results converted to parameters once, dual quantities converted only under the identity-geometry guard or via geometry.gradient",
         "typestate / guard-dominance over _model.py + end-of-path object state of LinearModel.__init__ (closures compared by body) + padding-mode/adjoint table for the shipped 2-D convolution pair + late-binding capture lint + tolerance-selected-shortcut lint with positive control + who-may-write rule for the operator handles + cache-coherence rule over the model layer + forward-only assembly rule for get_matrix (ast)"),
 "C08": ("leapfrog data flow, slice/divergence indicators, subtree selection ratio and update order, top-level accept guard and paired cache update, dual-averaging dependence sets, in both NUTS implementations",
         "reaching-definition provenance + CFG guard analysis on metavariable patterns over normal forms + case tables + end-of-path state of the initialisers + point/cache coherence (ast)"),
 "C09": ("sweep iterates all parameter names, conditions on the live value mapping, writes back before the next block, stores after the sweep; target-derived caches are recomputed after re-targeting",
         "def-use + loop-shape + effect analysis + guarded-default rule for configured counts + guard-derived set of sampler classes under the state restore + join-order rule for continued histories + deep effect scan of the statements outside the sweep loop + parameter-use rule for legacy step overrides (ast)"),
 "C10": ("conjugate validation (family, Gamma, dim 1, single occurrence, functional form) precedes every draw; dispatch tables agree; Direct.step is target.sample()",
         "call-graph must-pass-through + decision table of the pair selection + path effects of the step methods + re-bound captured variable lint with positive control (ast)"),
 "C11": ("no in-place or attribute write of the read API reaches a non-fresh object; conditioning returns fresh objects; copy-before-write; name survives copies",
         "alias/freshness + effect analysis over the read-API closure + cache coherence of the accepted lazy caches through shallow copies + may-alias rule for sampler writes into target-owned objects with positive control + read-only lint for the `_original_density` back-reference over all reaching definitions, with positive control (ast)"),
 "C12": ("inputs converted to function values exactly once according to the carried flag, outputs to parameters once; Samples/CUQIarray flags honoured; gradient guards; distribution branch only renames a copy",
         "typestate / provenance and decision tables (closed returned expression per valuation) over Model._apply_func/_2fun/_2par/gradient + tolerance-selected-shortcut lint + dynamic-attribute (`__getattr__`) lint for classes probed with hasattr, with positive control + decision table of Geometry.__eq__ (ast)"),
 "C13": ("conversion table of Samples/CUQIarray; par2fun and fun2par defined together; symmetric options; step-expansion intervals use complementary comparisons",
         "decision tables of the converters (loops stepped over and inspected as objects) + sibling-agreement lint over geometry classes (incl. vec2fun/par2fun outcome tables per option value) + MRO rule for wrapper shapes + axis lint for reductions inside geometry maps with positive control + one-partition rule for the two directions of StepExpansion (ast)"),
 "C14": ("checkpoint payload ⊇ loop-carried state; history unaliased; one transition/record/callback per iteration; config/state separation; key-set symmetry; initialisation-time randomness in the payload; legacy chain layout",
         "interprocedural attribute effect analysis (upward-exposed reads vs must-writes), may-alias analysis incl. ownership of kernel arguments across calls and of arrays handed to the solvers (views through to_numpy), CFG loop-shape rules on substituted views, deep effect scan outside the Gibbs sweep loops, who-may-define rule for the chain loop, purity of the read accessors (effect summaries) + swapped-argument lint (exact two-way swaps against the callee's parameter names) with positive control + in-place-write lint for property setters (ast)"),
 "C15": ("closed-form MAP normalises every stored covariance form; function and gradient negated together; MAP and covariance built from the same matrices",
         "shape-dispatch completeness over four storage forms (path walk per valuation) + paired-negation rules + Gram-orientation of compute_cov + who-may-write rule for the stored covariance with dominance of the sqrtprec store + all-path outcomes of ML + alias analysis (ast)"),
 "C16": ("matrix form and function form of every solver step are the same expression under A@v<->A(v,1), A.T@v<->A(v,2); x0/b/A never modified in place; paired negation; SciPy result passed through; projection/prox one-liners",
         "expression equivalence modulo operator form on if/else normal forms + closed forms / case tables of the small operators + end-of-path state of maximize + alias analysis + trial-twin unification for the LM accept branch + floor agreement of every damping increase (also inside local closures) (ast)"),
 "C17": ("exactData = model.forward(exactSolution) with the likelihood's model; data derived from it; noise level used with consistent degree; column assembly; exhaustive option chains",
         "def-use provenance in the test-problem constructors + path-sensitive option dispatch (refusal of unknown values, BC-to-mode table) + truthiness-default lint with positive control + abstract interpretation of PSF grid index arithmetic in an affine-with-parity domain + comparison-orientation rule for the defocus support + global-RNG re-seeding lint with positive control + no-write rule between assembly of the matrix and the LinearModel (ast)"),
 "C18": ("assemble -> solve -> observe data flow; per-step assembly and dt from the loop index; restriction only when grids/times coincide; solver tuple unpacking; gradient dispatch",
         "ordering/dominance + loop dependence rules + decision tables of observe / time_obs / solver defaults (end-of-path state) + tolerance-selected-shortcut lint (ast)"),
 "C19": ("sample axis is the last axis everywhere; burnthin slices a copy and refuses Nb>=Ns; statistics are the named NumPy reductions; interval bounds ordered; chains zipped in index order",
         "axis-convention lint + decision tables of the Samples converters + alias analysis + interprocedural read-only rule for the stored chain (unconditional callee writes) + argument-forwarding rule between statistics (ast)"),
 "C20": ("precision operator is D.T @ D of the same D; MRF log-densities act on x - location; boundary-condition tables agree between GMRF and the operators; one Cholesky source; 2-D Kronecker stacking siblings agree",
         "closed-form comparison of the MRF log-densities + order/boundary decision tables + integer evaluation of the reported rank against the operators' null-space table + shared-matrix mutation lints (memoised results, foreign accessors, module-level keyed caches) with positive controls + row-count table of the difference operators per (order, boundary) read off the slices (ast)"),
}

def main():
    checks, na = [], []
    for pid in sorted(META):
        text, tech = META[pid]
        if os.path.exists(os.path.join(HERE, "sa", "props", pid.lower() + ".py")):
            checks.append({
                "property_id": pid,
                "quick_cmd": f"./check {pid}",
                "thorough_cmd": f"./check {pid} --tier thorough",
                "evidence_file": f"/verif/evidence/{pid}.json",
                "replay_cmd_template": f"./check {pid} --replay {{path}}",
                "engine": "sa",
                "level_claimed": {
                    "category": "other",
                    "text": "Static analysis of the current source (no execution): decides the STRUCTURAL clause — " + text +
                            " — at every site the engine discovers, on every path of the control-flow graph. It is a necessary condition of the "
                            "property; the numerical/distributional remainder is not decided (DESIGN.md §5).",
                    "design_ref": f"DESIGN.md §3 {pid}, §5",
                },
                "level_note": "Trusted: CPython ast parser, the hand-confirmed idiom/exception tables in sa/props/" + pid.lower() +
                              ".py (one reason per entry), NumPy/SciPy/user callables assumed side-effect free on arguments. "
                              "Decides code shape, not values; a vanished anchor or unknown idiom ends as ANALYSIS-ERROR (exit 2), never as pass or violation.",
                "technique": "static analysis: " + tech,
            })
        else:
            na.append({"property_id": pid, "reason": "check not built yet in this revision (static rules designed in DESIGN.md §3; numerical clause is out of reach of static analysis, §5)"})
    man = {
        "version": 1,
        "setup_cmd": "./check --selfcheck",
        "hooks": {"guard": "CUQIPY_VERIF", "enable": "none needed: the analyser only parses /repo/cuqi/**/*.py (no instrumentation, guard unused)",
                  "baseline_off_cmd": "cd /repo && /venv/bin/python -m pytest -ra -q -p no:cacheprovider --timeout=900 --continue-on-collection-errors",
                  "source_commits": [], "add_only": True},
        "engines": [{"name": "sa", "path": "/verif/sa", "serves_properties": [c["property_id"] for c in checks],
                     "kind_free_text": "repository-specific static analyser on the Python ast: class/MRO/property index, statement CFG with split short-circuit tests, reaching definitions, attribute effect summaries, may-alias/freshness, rule tables per property"}],
        "checks": checks,
        "notes": "All checks are static (family: static analysis). Genuine defects found are either repaired by 'fix:' commits in /repo or listed in /verif/known_findings.json; see DESIGN.md §4.",
        "not_applicable": na,
    }
    json.dump(man, open(os.path.join(HERE, "MANIFEST.json"), "w"), indent=1, ensure_ascii=False)
    print("checks:", [c["property_id"] for c in checks], "na:", len(na))

if __name__ == "__main__":
    main()
