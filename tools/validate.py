#!/usr/bin/env python3
# run with python3-vt (has jsonschema): validates MANIFEST.json and every evidence/*.json
import json, glob, sys, jsonschema
ms = json.load(open('/root/.vp/MANIFEST.schema.json')); es = json.load(open('/root/.vp/EVIDENCE.schema.json'))
jsonschema.validate(json.load(open('/verif/MANIFEST.json')), ms); print("MANIFEST ok")
bad = 0
for f in sorted(glob.glob('/verif/evidence/C*.json')):
    try:
        jsonschema.validate(json.load(open(f)), es); print(f, "ok")
    except Exception as e:
        bad += 1; print(f, "INVALID", str(e)[:300])
sys.exit(1 if bad else 0)
