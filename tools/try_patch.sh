#!/bin/sh
# usage: tools/try_patch.sh [-R] <patch.diff> <Cxx> [more check args]   -- run a check against a scratch copy of /repo/cuqi with the patch applied
REV=""
if [ "$1" = "-R" ]; then REV="-R"; shift; fi
P="$(realpath "$1")"; shift
D="$(mktemp -d /tmp/scratch.XXXXXX)"
cp -r /repo/cuqi "$D/cuqi"
( cd "$D" && git init -q . >/dev/null 2>&1; git -C "$D" apply $REV --include='cuqi/*' "$P" ) || { echo "PATCH-FAILED"; rm -rf "$D"; exit 3; }
cd "$(dirname "$0")/.." && VERIF_NO_EVIDENCE=1 ./check "$@" --root "$D"
rc=$?
rm -rf "$D"
exit $rc
