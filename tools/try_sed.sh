#!/bin/sh
# usage: tools/try_sed.sh <file relative to repo> <sed expr> <Cxx> -- run a check against a scratch copy with one sed edit
F="$1"; E="$2"; shift; shift
D="$(mktemp -d /tmp/scratch.XXXXXX)"
cp -r /repo/cuqi "$D/cuqi"
sed -i "$E" "$D/$F"
if cmp -s "$D/$F" "/repo/$F"; then echo "SED-NO-CHANGE"; rm -rf "$D"; exit 3; fi
cd "$(dirname "$0")/.." && VERIF_NO_EVIDENCE=1 ./check "$@" --root "$D"
rc=$?
rm -rf "$D"
exit $rc
