#!/bin/sh
# usage: tools/ingest_seeds.sh <PID> <round-tag> <worktree-root> <base>   -- copy <root>/<PID>/_seed/<PID>-<tag>-k to seeded/, confirm each (verify_seed.sh) and run all checks on it
PID="$1"; TAG="$2"; ROOT="$3"; BASE="$4"
for k in 1 2 3; do
  ID="$PID-$TAG-$k"; SRC="$ROOT/$PID/_seed/$ID"
  [ -f "$SRC/patch.diff" ] || { echo "$ID missing"; continue; }
  mkdir -p "/verif/seeded/$ID"; cp "$SRC/patch.diff" "$SRC/meta.json" "/verif/seeded/$ID/" 2>/dev/null; cp "$SRC/demo.py" "/verif/seeded/$ID/demo.py"
  /verif/tools/verify_seed.sh "$ID" "$BASE"
  det=""
  for P in C01 C02 C03 C04 C05 C06 C07 C08 C09 C10 C11 C12 C13 C14 C15 C16 C17 C18 C19 C20; do
    out=$(/verif/tools/try_seed.sh "/verif/seeded/$ID/patch.diff" $P 2>&1); rc=$?
    if [ $rc -eq 1 ]; then rules=$(echo "$out" | grep -o "rule=C[0-9]*-R[0-9]*" | sort -u | tr '\n' ' '); det="$det $P[$rules]"; fi
    if [ $rc -eq 2 ]; then det="$det $P[exit2: $(echo "$out" | grep -m1 'ANALYSIS' | cut -c1-120)]"; fi
  done
  echo "DETECT $ID:$det" | tee -a /tmp/seed3_detect.log
done
