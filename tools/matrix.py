#!/venv/bin/python
"""Detection matrix: every mutant (seeded patch, fix revert, edit) x every property check. Writes mutants/matrix.json and
(with --freeze) mutants/expected.json."""
import json, os, sys, shutil, subprocess, tempfile, io, contextlib, importlib
sys.path.insert(0, "/verif")
from concurrent.futures import ProcessPoolExecutor
from pathlib import Path
PROPS = [f"C{i:02d}" for i in range(1, 21)]
V = Path("/verif")

def _limit():
    # a check that runs away on one mutant must end as an INTERNAL-ERROR of that (mutant, property) pair, not as an OOM kill of the pool
    import resource
    resource.setrlimit(resource.RLIMIT_AS, (3 << 30, 3 << 30))


def _map(fn, S, chunk=96):
    """a fresh pool per chunk of mutants: the per-repository caches of the analyser are keyed by object identity and never evicted, so a worker that
    lives for the whole matrix grows by ~150 MB per mutant (max_tasks_per_child hangs on Python 3.12.1)"""
    R = []
    for i in range(0, len(S), chunk):
        with ProcessPoolExecutor(16, initializer=_limit) as ex:
            R += list(ex.map(fn, S[i:i + chunk]))
    return R


def benign_specs():
    out = []
    for d in sorted((V / "benign").iterdir()):
        if (d / "patch.diff").exists():
            out.append({"id": f"benign:{d.name}", "kind": "patch", "path": str(d / "patch.diff"), "reverse": False})
    return out


def specs():
    out = []
    for d in sorted((V / "seeded").iterdir()):
        if (d / "patch.diff").exists():
            out.append({"id": f"seed:{d.name}", "kind": "patch", "path": str(d / "patch.diff"), "reverse": False})
    for f in sorted((V / "mutants").glob("revert-*.diff")):
        out.append({"id": f"revert:{f.stem[7:]}", "kind": "patch", "path": str(f), "reverse": True})
    ej = V / "mutants" / "edits.json"
    if ej.exists():
        for e in json.loads(ej.read_text()):
            out.append({**e, "id": "edit:" + e["id"], "kind": "edit"})
    return out

def run(spec):
    os.environ["VERIF_NO_EVIDENCE"] = "1"
    tmp = tempfile.mkdtemp(prefix="cuqimat.")
    res = {"id": spec["id"], "applied": True, "props": {}}
    try:
        shutil.copytree("/repo/cuqi", tmp + "/cuqi")
        if spec["kind"] == "patch":
            r = subprocess.run(["git", "apply", "--include=cuqi/*"] + (["-R"] if spec["reverse"] else []) + [spec["path"]], cwd=tmp, capture_output=True, text=True)
            if r.returncode:
                from sa.thorough import apply_rebased
                r = apply_rebased(spec["path"], spec["reverse"], tmp) or r
            if r.returncode:
                return {"id": spec["id"], "applied": False, "why": r.stderr[:150]}
        else:
            p = tmp + "/" + spec["file"]; src = open(p, newline="").read()
            if src.count(spec["old"]) != 1:
                return {"id": spec["id"], "applied": False, "why": f"pattern x{src.count(spec['old'])}"}
            open(p, "w", newline="").write(src.replace(spec["old"], spec["new"]))
        from sa.index import Repo, AnchorError
        from sa.report import Check
        repo = None
        for prop in PROPS:
            buf = io.StringIO()
            with contextlib.redirect_stdout(buf), contextlib.redirect_stderr(buf):
                try:
                    chk = Check(prop, "quick", tmp, 0)
                    repo = Repo(tmp)
                    importlib.import_module(f"sa.props.{prop.lower()}").run(chk, repo)
                    bad = [o for o in chk.obligations if not o.ok and chk._known_entry(o) is None]
                    if bad:
                        res["props"][prop] = sorted({o.rule for o in bad})
                    elif chk.unknowns:
                        res["props"][prop] = ["ANALYSIS-ERROR: unrecognised " + ", ".join(sorted({u.rule for u in chk.unknowns}))]
                except AnchorError as e:
                    bad = [o for o in chk.obligations if not o.ok and chk._known_entry(o) is None]
                    res["props"][prop] = sorted({o.rule for o in bad}) if bad else ["ANALYSIS-ERROR: " + str(e)[:80]]
                except Exception as e:
                    res["props"][prop] = ["INTERNAL-ERROR: " + repr(e)[:80]]
        return res
    finally:
        shutil.rmtree(tmp, ignore_errors=True)
        _purge()


def _purge():
    """the analyser's per-repository caches are keyed by object identity: drop them after each mutated copy"""
    import gc
    for name, mod in list(sys.modules.items()):
        if name.startswith("sa.") or name == "sa":
            for k, v in list(vars(mod).items()):
                if isinstance(v, dict) and (k.endswith("CACHE") or k in ("_KV", "_CLASS_LITS", "_CTX")):      # caches only: tables of the rules stay
                    v.clear()
    gc.collect()

if __name__ == "__main__":
    if "--benign" in sys.argv:
        # behaviour-preserving refactorings: every report is a false alarm (exit 1) or an unrecognised idiom (exit 2)
        S = benign_specs()
        R = _map(run, S)
        json.dump(R, open(V / "benign" / "matrix.json", "w"), indent=1)
        fa = er = 0
        for r in R:
            if not r["applied"]:
                print(f"{r['id']:18s} NOT-APPLICABLE {r.get('why','')[:80]}")
                continue
            det = {p: v for p, v in r["props"].items() if not v[0].startswith(("ANALYSIS", "INTERNAL"))}
            err = {p: v[0][:110] for p, v in r["props"].items() if v[0].startswith(("ANALYSIS", "INTERNAL"))}
            fa += len(det); er += len(err)
            print(f"{r['id']:18s} " + ("quiet" if not det and not err else "") + (f"FALSE-ALARM {det} " if det else "") + (f"exit2 {err}" if err else ""))
        print(f"{len(R)} refactorings x 20 properties: {fa} false alarms, {er} analysis errors")
        sys.exit(0)
    S = specs()
    R = _map(run, S)
    json.dump(R, open(V / "mutants" / "matrix.json", "w"), indent=1)
    for r in R:
        if not r["applied"]:
            print(f"{r['id']:28s} NOT-APPLICABLE {r.get('why','')[:80]}")
        else:
            det = {p: v for p, v in r["props"].items() if not v[0].startswith(("ANALYSIS", "INTERNAL"))}
            err = {p: v for p, v in r["props"].items() if v[0].startswith(("ANALYSIS", "INTERNAL"))}
            print(f"{r['id']:28s} detected by {', '.join(f'{p}({chr(44).join(x.split(chr(45))[1] for x in v)})' for p, v in det.items()) or '-'}" + (f"   errors: {err}" if err else ""))
    if "--freeze" in sys.argv:
        exp = {r["id"]: sorted(p for p, v in r["props"].items() if not v[0].startswith(("ANALYSIS", "INTERNAL"))) for r in R if r["applied"]}
        json.dump(exp, open(V / "mutants" / "expected.json", "w"), indent=1)
        print("expected.json written")
