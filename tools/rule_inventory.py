#!/usr/bin/env python3
"""Writes the rule inventory (rule id, statement, floor, obligations on the current tree) into DESIGN.md between the RULES-BEGIN/END markers."""
import ast, glob, json, os, re
V = os.path.dirname(os.path.dirname(os.path.abspath(__file__)))
rows = []
for f in sorted(glob.glob(os.path.join(V, "sa/props/c[0-9][0-9].py"))):
    tree = ast.parse(open(f).read())
    for c in ast.walk(tree):
        if isinstance(c, ast.Call) and isinstance(c.func, ast.Attribute) and c.func.attr == "rule" and len(c.args) >= 2:
            try:
                rid = ast.literal_eval(c.args[0]); text = ast.literal_eval(c.args[1])
            except Exception:
                continue
            floor = next((ast.literal_eval(k.value) for k in c.keywords if k.arg == "floor"), "")
            rows.append((rid, " ".join(text.split()), floor))
counts = {}
for f in glob.glob(os.path.join(V, "evidence/C*.json")):
    try:
        ev = json.load(open(f))
    except Exception:
        continue
    def walk(o):
        if isinstance(o, dict):
            r = o.get("rule")
            if isinstance(r, str) and re.fullmatch(r"C\d\d-R\d+", r) and ("instance" in o or "status" in o):
                counts[r] = counts.get(r, 0) + 1
            for v in o.values():
                walk(v)
        elif isinstance(o, list):
            for v in o:
                walk(v)
    walk(ev)
rows.sort(key=lambda r: (r[0][:3], int(r[0].split("R")[1])))
out = ["| rule | decided clause | floor | obligations today |", "|----|----|----|----|"]
for rid, text, floor in rows:
    out.append(f"| {rid} | {text} | {floor} | {counts.get(rid, '')} |")
block = "\n".join(out)
p = os.path.join(V, "DESIGN.md")
s = open(p).read()
b, e = "<!-- RULES-BEGIN -->", "<!-- RULES-END -->"
if b in s and e in s:
    s = s[:s.index(b) + len(b)] + "\n" + block + "\n" + s[s.index(e):]
    open(p, "w").write(s)
print(len(rows), "rules")
