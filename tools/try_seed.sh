#!/bin/sh
# usage: tools/try_seed.sh <seed-or-benign patch.diff> <Cxx> [args]  -- like try_patch.sh but falls back to the rebase map (mutants/rebase_map.json)
P="$(realpath "$1")"; shift
D="$(mktemp -d /tmp/scratch.XXXXXX)"
cp -r /repo/cuqi "$D/cuqi"
cd "$(dirname "$0")/.."
/venv/bin/python - "$P" "$D" <<'PY' || { echo PATCH-FAILED; rm -rf "$D"; exit 3; }
import sys, subprocess
sys.path.insert(0, ".")
from sa.thorough import apply_rebased
p, d = sys.argv[1], sys.argv[2]
subprocess.run(["git", "init", "-q", d], capture_output=True)
r = subprocess.run(["git", "-C", d, "apply", "--include=cuqi/*", p], capture_output=True)
if r.returncode != 0:
    r2 = apply_rebased(p, False, d)
    sys.exit(0 if r2 is not None and getattr(r2, "returncode", 1) == 0 else 1)
PY
VERIF_NO_EVIDENCE=1 ./check "$@" --root "$D"
rc=$?
rm -rf "$D"
exit $rc
