#!/venv/bin/python
"""usage: tools/regress.py Cxx [Cyy ...] -- for each property: (a) every benign refactoring x this property's check (expect quiet),
(b) every mutant expected for this property (mutants/expected.json) still reported."""
import json, os, sys, io, contextlib, importlib, shutil, subprocess, tempfile
sys.path.insert(0, "/verif")
from concurrent.futures import ProcessPoolExecutor
from pathlib import Path
V = Path("/verif")
sys.path.insert(0, str(V / "tools"))
import matrix as M


def run_one(args):
    spec, props = args
    os.environ["VERIF_NO_EVIDENCE"] = "1"
    M.PROPS = props
    return M.run(spec)


if __name__ == "__main__":
    props = sys.argv[1:]
    for p in props:      # the unchanged tree must pass before anything else is worth running
        r = subprocess.run(["/verif/check", p], capture_output=True, text=True, env={**os.environ, "VERIF_NO_EVIDENCE": "1"})
        if r.returncode != 0:
            print("\n".join(l for l in r.stdout.splitlines() if not l.startswith("KNOWN"))[-1500:])
            print(f"{p}: check fails on the unchanged tree (rc={r.returncode}); regression not run")
            sys.exit(1)
    exp = json.loads((V / "mutants" / "expected.json").read_text())
    specs = {s["id"]: s for s in M.specs()}
    jobs = [(s, props) for s in M.benign_specs()]
    mids = [m for m, ps in exp.items() if set(ps) & set(props) and m in specs]
    jobs += [(specs[m], props) for m in mids]
    with ProcessPoolExecutor(16) as ex:
        R = list(ex.map(run_one, jobs))
    fa = er = miss = 0
    for r in R:
        if not r["applied"]:
            continue
        if r["id"].startswith("benign:"):
            for p, v in r["props"].items():
                if v[0].startswith(("ANALYSIS", "INTERNAL")):
                    er += 1; print(f"  exit2       {r['id']:16s} {p}: {v[0][:150]}")
                else:
                    fa += 1; print(f"  FALSE-ALARM {r['id']:16s} {p}: {v}")
        else:
            for p in props:
                if p in exp.get(r["id"], []):
                    v = r["props"].get(p)
                    if not v or v[0].startswith(("ANALYSIS", "INTERNAL")):
                        miss += 1; print(f"  MISSED      {r['id']:32s} {p}: {v[0][:120] if v else 'silent'}")
    print(f"{props}: false alarms {fa}, exit-2 on benign {er}, expected mutants no longer reported {miss} (of {sum(len(set(exp[m]) & set(props)) for m in mids)})")
